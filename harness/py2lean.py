"""Translator, part 2 (tie a): Python AST -> Lean 4 for the three grammar state functions
`next_atom_state`, `next_branch_state`, `next_ring_state` of selfies/grammar_rules.py.

Subset: parameters are ints; statements are assignment, `if/elif/else` (bodies in the subset),
`assert`, `return` of a tuple or a single expression; expressions are names, int constants,
`None`, `+ - *`, unary minus, `min`/`max` calls, comparisons (chained), `and`/`or`/`not`,
conditional expressions.  Everything is translated over `Int`; a value that may be `None`
becomes `Option Int`.  `assert` becomes an explicit `AssertionError` result.

If a function leaves the subset, `generate` reports it (info[name] = {"ok": False, ...}) and
emits a fallback definition that simply re-exports the hand model, so that the build does not
break; the harness then ties that function by an exhaustive grid correspondence instead.
"""
import ast

FUNCS = ["next_atom_state", "next_branch_state", "next_ring_state"]
FALLBACK = {
    "next_atom_state": ("(bond_order bond_cap state : Int) : Py (Int × Option Int)",
                        "SV.Gen.Fallback.next_atom_state bond_order bond_cap state"),
    "next_branch_state": ("(branch_type state : Int) : Py (Int × Int)",
                          "SV.Gen.Fallback.next_branch_state branch_type state"),
    "next_ring_state": ("(ring_type state : Int) : Py (Int × Option Int)",
                        "SV.Gen.Fallback.next_ring_state ring_type state"),
}


class Unsupported(Exception):
    pass


INT, OPT, BOOL, NONE = "Int", "Option Int", "Bool", "None"


class Tr:
    def __init__(self, params):
        self.env = {p: INT for p in params}

    # ---- expressions: return (lean_text, type)
    def expr(self, e, env):
        if isinstance(e, ast.Constant):
            if e.value is None:
                return "none", NONE
            if isinstance(e.value, bool):
                return ("true" if e.value else "false"), BOOL
            if isinstance(e.value, int):
                return ("(%d : Int)" % e.value if e.value >= 0 else "(-%d : Int)" % -e.value), INT
            raise Unsupported("constant %r" % (e.value,))
        if isinstance(e, ast.Name):
            if e.id not in env:
                raise Unsupported("unknown name %s" % e.id)
            return e.id, env[e.id]
        if isinstance(e, ast.UnaryOp):
            if isinstance(e.op, ast.USub):
                t, ty = self.expr(e.operand, env)
                self.need(ty, INT)
                return "(-%s)" % t, INT
            if isinstance(e.op, ast.Not):
                t, ty = self.expr(e.operand, env)
                self.need(ty, BOOL)
                return "(!%s)" % t, BOOL
            raise Unsupported("unary op")
        if isinstance(e, ast.BinOp):
            ops = {ast.Add: "+", ast.Sub: "-", ast.Mult: "*"}
            if type(e.op) not in ops:
                raise Unsupported("binary op %s" % type(e.op).__name__)
            a, ta = self.expr(e.left, env)
            b, tb = self.expr(e.right, env)
            self.need(ta, INT)
            self.need(tb, INT)
            return "(%s %s %s)" % (a, ops[type(e.op)], b), INT
        if isinstance(e, ast.Call):
            if isinstance(e.func, ast.Name) and e.func.id in ("min", "max") and not e.keywords \
                    and len(e.args) >= 2:
                parts = []
                for a in e.args:
                    t, ty = self.expr(a, env)
                    self.need(ty, INT)
                    parts.append(t)
                acc = parts[0]
                for p in parts[1:]:
                    acc = "(%s %s %s)" % (e.func.id, acc, p)
                return acc, INT
            raise Unsupported("call")
        if isinstance(e, ast.Compare):
            ops = {ast.Eq: "==", ast.NotEq: "!=", ast.Lt: "<", ast.LtE: "≤", ast.Gt: ">", ast.GtE: "≥"}
            left = e.left
            parts = []
            for op, right in zip(e.ops, e.comparators):
                if isinstance(op, (ast.Is, ast.IsNot)):
                    raise Unsupported("is")
                if type(op) not in ops:
                    raise Unsupported("compare op")
                a, ta = self.expr(left, env)
                b, tb = self.expr(right, env)
                self.need(ta, INT)
                self.need(tb, INT)
                parts.append("(decide (%s %s %s))" % (a, {"==": "=", "!=": "≠"}.get(ops[type(op)], ops[type(op)]), b))
                left = right
            return "(" + " && ".join(parts) + ")", BOOL
        if isinstance(e, ast.BoolOp):
            op = "&&" if isinstance(e.op, ast.And) else "||"
            parts = []
            for v in e.values:
                t, ty = self.expr(v, env)
                self.need(ty, BOOL)
                parts.append(t)
            return "(" + (" %s " % op).join(parts) + ")", BOOL
        if isinstance(e, ast.IfExp):
            c, tc = self.expr(e.test, env)
            self.need(tc, BOOL)
            a, ta = self.expr(e.body, env)
            b, tb = self.expr(e.orelse, env)
            if ta == tb and ta in (INT, BOOL, OPT):
                return "(if %s then %s else %s)" % (c, a, b), ta
            # Option join
            a2 = self.to_opt(a, ta)
            b2 = self.to_opt(b, tb)
            return "(if %s then %s else %s)" % (c, a2, b2), OPT
        raise Unsupported("expression %s" % type(e).__name__)

    def to_opt(self, t, ty):
        if ty == NONE:
            return "(none : Option Int)"
        if ty == INT:
            return "(some %s)" % t
        if ty == OPT:
            return t
        raise Unsupported("cannot make Option of %s" % ty)

    def need(self, ty, want):
        if ty != want:
            raise Unsupported("type %s where %s expected" % (ty, want))

    # ---- statements in continuation style: returns (lean_text, return_types)
    def block(self, stmts, env, indent, rest=()):
        stmts = list(stmts) + list(rest)
        pad = "  " * indent
        if not stmts:
            raise Unsupported("fell off the end without return")
        s, tail = stmts[0], stmts[1:]
        if isinstance(s, ast.Expr) and isinstance(s.value, ast.Constant) and isinstance(s.value.value, str):
            return self.block(tail, env, indent)  # docstring
        if isinstance(s, ast.Assign):
            if len(s.targets) != 1 or not isinstance(s.targets[0], ast.Name):
                raise Unsupported("assignment target")
            t, ty = self.expr(s.value, env)
            if ty == NONE:
                t, ty = "(none : Option Int)", OPT
            env2 = dict(env)
            env2[s.targets[0].id] = ty
            body, rt = self.block(tail, env2, indent)
            return "%slet %s : %s := %s\n%s" % (pad, s.targets[0].id, ty, t, body), rt
        if isinstance(s, ast.Assert):
            c, tc = self.expr(s.test, env)
            self.need(tc, BOOL)
            body, rt = self.block(tail, env, indent + 1)
            return "%sif %s then\n%s\n%selse Except.error PyExc.AssertionError" % (pad, c, body, pad), rt
        if isinstance(s, ast.If):
            c, tc = self.expr(s.test, env)
            self.need(tc, BOOL)
            a, rta = self.block(s.body, dict(env), indent + 1, tail)
            b, rtb = self.block(s.orelse, dict(env), indent + 1, tail)
            rt = self.join_rt(rta, rtb)
            return "%sif %s then\n%s\n%selse\n%s" % (pad, c, a, pad, b), rt
        if isinstance(s, ast.Return):
            v = s.value
            elts = v.elts if isinstance(v, ast.Tuple) else [v]
            parts = [self.expr(x, env) for x in elts]
            return ("%sRET(%s)" % (pad, "\x00".join("%s\x01%s" % p for p in parts))), [p[1] for p in parts]
        raise Unsupported("statement %s" % type(s).__name__)

    def join_rt(self, a, b):
        if len(a) != len(b):
            raise Unsupported("returns of different arity")
        out = []
        for x, y in zip(a, b):
            if x == y:
                out.append(x)
            elif {x, y} <= {INT, OPT, NONE}:
                out.append(OPT)
            else:
                raise Unsupported("returns of different types")
        return out


def translate_function(fn):
    params = [a.arg for a in fn.args.args]
    if fn.args.vararg or fn.args.kwarg or fn.args.kwonlyargs or fn.args.defaults:
        raise Unsupported("signature")
    tr = Tr(params)
    body, rt = tr.block(fn.body, dict(tr.env), 1)
    rt = [OPT if t == NONE else t for t in rt]
    # now resolve RET(...) markers with the joined return types
    out_lines = []
    for line in body.split("\n"):
        if "RET(" in line:
            pad, payload = line.split("RET(", 1)
            payload = payload[:-1]
            parts = [p.split("\x01") for p in payload.split("\x00")]
            vals = []
            for (t, ty), want in zip(parts, rt):
                if want == OPT:
                    vals.append(tr.to_opt(t, ty))
                else:
                    vals.append(t)
            out_lines.append("%sExcept.ok (%s)" % (pad, ", ".join(vals)))
        else:
            out_lines.append(line)
    sig = "(%s : Int) : Py (%s)" % (" ".join(params), " × ".join(rt))
    return sig, "\n".join(out_lines), params, rt


def generate(path):
    with open(path, encoding="utf-8") as f:
        tree = ast.parse(f.read())
    fns = {n.name: n for n in tree.body if isinstance(n, ast.FunctionDef)}
    L = ["/- GENERATED by harness/py2lean.py from selfies/grammar_rules.py. Do not edit. -/",
         "import SelfiesVerif.Py", "import SelfiesVerif.Generated.Fallback",
         "namespace SV.Gen", "open SV", ""]
    info = {}
    for name in FUNCS:
        try:
            if name not in fns:
                raise Unsupported("function not found")
            sig, body, params, rt = translate_function(fns[name])
            L.append("def %s %s :=\n%s\n" % (name, sig, body))
            info[name] = {"ok": True, "params": params, "returns": rt,
                          "ast": ast.dump(fns[name])}
        except Unsupported as e:
            sig, body = FALLBACK[name]
            L.append("/- translator fallback: %s -/" % e)
            L.append("def %s %s :=\n  %s\n" % (name, sig, body))
            info[name] = {"ok": False, "reason": str(e)}
    L.append("def translatorFallbacks : List String := [%s]" % ", ".join(
        '"%s"' % n for n in FUNCS if not info[n]["ok"]))
    L.append("end SV.Gen")
    return "\n".join(L) + "\n", info


# =====================================================================================
# Part 3: the wider subset (loops, table lookups, strings, exceptions)
# =====================================================================================
__doc__ += """

Part 3 (same file, class `TrX`, `generate_pure`): a wider subset for the pure arithmetic /
lookup code

    selfies/grammar_rules.py     get_index_from_selfies, get_selfies_from_index
    selfies/bond_constraints.py  get_bonding_capacity
    selfies/mol_graph.py         Atom.bonding_capacity
    selfies/decoder.py           _read_index_from_selfies

written to Generated/IndexFns.lean, Generated/CapacityFns.lean, Generated/ReadIndexFns.lean.
The translation is directed by the structure of the AST; nothing is recognised "as a whole".

  values      int -> Int (Nat where non-negative by construction: len(), enumerate counter, range
              variable), str -> Str, None-able -> Option, list -> List, the generated tables and
              the constraint dict -> association lists (PyRt.dict*), iterator -> abstract state
              + `next` function (exhaustion = .error .StopIteration)
  effects     every operation that can raise (`//`, `%`, divmod, `seq[i]`, `d[k]`, next(),
              calls of translated functions) is bound with `let t ← …` in evaluation order
              inside `do` blocks over `Py = Except PyExc`; short-circuit operands keep their
              effects inside the branch
  for         `for x in xs / reversed(xs) / enumerate(xs) / range(n)` whose body only rebinds
              variables that exist before the loop -> `List.foldl` (body cannot raise) or
              `List.foldlM` over the tuple of those variables; `continue` allowed; `break` adds a
              flag `py_broke` to that tuple (once set, the remaining iterations do nothing);
              `return` inside a loop is outside the subset
  while       `while v:` / `while v != 0:` / `while v > 0:` whose body contains exactly one
              assignment to v of the form `v //= b`, `v = v // b` or `v, r = divmod(v, b)` with b
              not assigned in the body -> an auxiliary definition by structural recursion on a
              fuel argument, called with fuel `v.toNat + 1`; running out of fuel is
              `.error .NonTermination`.  (Why it suffices is stated in the generated comment and
              PROVED in Proofs/GenEq2.lean.)
  try         `try: S1; S… except E: H` where only S1 can raise (the rest of the body must be
              effect free), so that the handler sees the state at the entry of the `try`
  mutation    `x.append(e)`, `x.reverse()`, `x += …` rebind x (no aliasing: `a = b` for lists is
              outside the subset)
  strings     `+`, `+=`, `"…{}…{:+}…".format(ints/strs)`, f-strings of the same
  None        `e is None` / `is not None` as the test of `if` / conditional expression ->
              `match` that refines the type in the non-None branch
  truthiness  `if n:` on ints and lists; `a or b` on ints / Option ints with Python's value
              semantics (0 and None are falsy)
  globals     names imported from selfies.constants that gen_tables.py dumps (INDEX_CODE,
              INDEX_ALPHABET) refer to the generated constants; a mutable module global
              (`_current_constraints`) becomes an explicit first parameter
  methods     `self.attr` (read only) becomes a parameter `self_attr`
  encodings   (group EncodingFns, selfies/utils/encoding_utils.py: encoding_to_selfies,
              selfies_to_encoding)  a parameter annotated `Union[A, B]` -> Lean sum `A ⊕ B`
              (PyRt.sumItems / sumIndexOf / dictItemSum / indexSum give Python's errors for the
              wrong shape); `x in ("a", "b")`; `a in b` on strs (substring); `"".join(xs)`;
              `l.index(v)`; `[f(x) for x in xs]` -> List.map / List.mapM; `list(d.values())`;
              dicts int ↦ str and str ↦ int (PyRt.dictItemI, dictItemSI, dictHasSI, dictGetSI?);
              `s * n`, `[..] * n`; `x[i] = v` -> PyRt.setItem; `list()`; `a = b` on a mutable
              value when neither name is assigned again on the rest of the path;
              SPECS `callees`: library functions that are called but not translated become
              parameters (a generator is `List item × Option PyExc`: the items it yields and the
              exception that ends the iteration, raised by PyRt.genEnd after the loop);
              SPECS `defaults`: default values are ignored, the Lean function takes every argument;
              SPECS `join_ifs`: an `if` that only rebinds existing variables yields their tuple
              and the rest of the block is emitted once; SPECS `sum_return`: returns of
              different types -> a Lean sum of the distinct types in order of first `return`
  utilities   (group UtilFns, selfies/utils/selfies_utils.py: len_selfies,
              get_alphabet_from_selfies)  `s.count("c")` for a one-character literal ->
              PyRt.strCount1; `set()` / `x.add(e)` / `x.discard(e)` -> a duplicate-free list in
              insertion order (PyRt.setAdd, PyRt.setDiscard); `set(xs)` of a list or of a
              generator (PyRt.genList, PyRt.setOfList); `"sep".join(xs)` (PyRt.strJoin); a SPECS callee may be a function
              defined in the same module (here the generator split_selfies)
  generators  (SPECS `generator=item type`, class TrGenerator: split_selfies)  the body runs in
              `Except (PyExc × List item)`: `yield e` appends to `py_out`, `raise E` is
              `.error (E, py_out)`, `PyRt.genRun` gives (items yielded, terminal exception);
              `s.find("c"[, start])` -> PyRt.strFind1, `s[a:b]` -> PyRt.strSlice;
              `while … v < bound …` -> recursion on fuel `(bound - v).toNat + 1` (sufficiency
              PROVED in Proofs/GenEq8.lean); expressions that can raise are outside the subset
Anything else raises `Unsupported`; the function then gets the hand copy of
Generated/Fallback.lean and is listed in the group's `translatorFallbacks…` constant.
"""

import copy
import os
import string as _string

EXC_NAMES = ["DecoderError", "EncoderError", "SMILESParserError", "ValueError", "KeyError",
             "IndexError", "AttributeError", "AssertionError", "RecursionError",
             "ZeroDivisionError", "TypeError", "StopIteration"]


class NeedsMonad(Exception):
    """an effectful expression turned up while a block was translated in pure mode"""


# ---- types ---------------------------------------------------------------------------
NAT, STR = "Nat", "Str"


def Opt(t):
    return ("Option", t)


def Lst(t):
    return ("List", t)


def Dct(k, v):
    return ("Dict", k, v)


def Tup(*ts):
    return ("Tuple",) + tuple(ts)


def Uni(a, b):
    """a parameter annotated `Union[A, B]`: a Lean sum"""
    return ("Union", a, b)


def Set(t):
    """a Python set: a duplicate-free list in insertion order (PyRt.setAdd / setDiscard)"""
    return ("Set", t)


def Gen(t):
    """what a generator call gives: the items it yields and the exception, if any, that ends it"""
    return ("Gen", t)


def Fn(ret, *args):
    """a library function that is not translated: a parameter of the Lean function"""
    return ("Fn", ret) + tuple(args)


ITER = ("Iter",)  # an iterator parameter; its items are (Nat, Str) pairs
ITER_ITEM = Tup(NAT, STR)


class TVar:
    """element type of a list literal `[]`, fixed by the first append"""
    n = 0

    def __init__(self):
        TVar.n += 1
        self.id = TVar.n
        self.ref = None


def resolve(t):
    while isinstance(t, TVar) and t.ref is not None:
        t = t.ref
    if isinstance(t, tuple):
        return (t[0],) + tuple(resolve(x) for x in t[1:])
    return t


def render(t):
    t = resolve(t)
    if isinstance(t, TVar):
        return "\x02T%d\x02" % t.id
    if t in (INT, NAT, BOOL, STR):
        return t
    if t == OPT:
        return "(Option Int)"
    if t[0] == "Option":
        return "(Option %s)" % render(t[1])
    if t[0] in ("List", "Set"):
        return "(List %s)" % render(t[1])
    if t[0] == "Dict":
        return "(List (%s × %s))" % (render(t[1]), render(t[2]))
    if t[0] == "Tuple":
        return "(" + " × ".join(render(x) for x in t[1:]) + ")"
    if t[0] == "Iter":
        return "ι"
    if t[0] == "Union":
        return "(%s ⊕ %s)" % (render(t[1]), render(t[2]))
    if t[0] == "Gen":
        return "((List %s) × (Option PyExc))" % render(t[1])
    if t[0] == "Fn":
        return "(" + " → ".join([render(x) for x in t[2:]] + [render(t[1])]) + ")"
    raise Unsupported("type %r" % (t,))


def unify(a, b):
    a, b = resolve(a), resolve(b)
    if a is b or a == b:
        return True
    if isinstance(a, TVar):
        a.ref = b
        return True
    if isinstance(b, TVar):
        b.ref = a
        return True
    if isinstance(a, tuple) and isinstance(b, tuple) and a[0] == b[0] and len(a) == len(b):
        return all(unify(x, y) for x, y in zip(a[1:], b[1:]))
    return False


def norm(t):
    """the old translator's 'Option Int' string and the new ('Option', 'Int') are the same type"""
    t = resolve(t)
    if t == OPT:
        return Opt(INT)
    return t


def proj(text, i, n):
    """component i of an n-tuple (right nested pairs)"""
    if n == 1:
        return text
    s = text + ".2" * i
    return s + (".1" if i < n - 1 else "")


def lean_char(c):
    o = ord(c)
    if c == "\\":
        return "'\\\\'"
    if c == "'":
        return "'\\''"
    if 32 <= o < 127:
        return "'%s'" % c
    return "(Char.ofNat %d)" % o


def lean_str(s):
    return "([" + ", ".join(lean_char(c) for c in s) + "] : Str)"


# ---- what the translator knows about the modules -------------------------------------
# names of selfies.constants that gen_tables.py dumps into Generated/Tables.lean
CONSTANT_TABLES = {
    "INDEX_CODE": ("indexCode", Dct(STR, NAT)),
    "INDEX_ALPHABET": ("indexAlphabet", Lst(STR)),
}

SPECS = [
    dict(name="get_index_from_selfies", file="selfies/grammar_rules.py", group="IndexFns",
         params=[], vararg=("symbols", Lst(Opt(STR)))),
    dict(name="get_selfies_from_index", file="selfies/grammar_rules.py", group="IndexFns",
         params=[("index", INT)]),
    dict(name="get_bonding_capacity", file="selfies/bond_constraints.py", group="CapacityFns",
         params=[("element", STR), ("charge", INT)],
         globals=[("_current_constraints", Dct(STR, NAT))]),
    dict(name="bonding_capacity", cls="Atom", lean="Atom_bonding_capacity",
         file="selfies/mol_graph.py", group="CapacityFns", params=[],
         self_attrs=[("element", STR), ("charge", INT), ("h_count", Opt(INT))]),
    dict(name="_read_index_from_selfies", lean="read_index_from_selfies",
         file="selfies/decoder.py", group="ReadIndexFns",
         params=[("symbol_iter", ITER), ("n_symbols", INT)]),
    dict(name="encoding_to_selfies", file="selfies/utils/encoding_utils.py", group="EncodingFns",
         params=[("encoding", Uni(Lst(INT), Lst(Lst(INT)))), ("vocab_itos", Dct(INT, STR)), ("enc_type", STR)]),
    dict(name="selfies_to_encoding", file="selfies/utils/encoding_utils.py", group="EncodingFns",
         params=[("selfies", STR), ("vocab_stoi", Dct(STR, INT)), ("pad_to_len", INT), ("enc_type", STR)],
         callees=[("len_selfies", "selfies.utils.selfies_utils", Fn(NAT, STR)),
                  ("split_selfies", "selfies.utils.selfies_utils", Fn(Gen(STR), STR))],
         defaults=True, join_ifs=True, sum_return=True),
    dict(name="len_selfies", file="selfies/utils/selfies_utils.py", group="UtilFns",
         params=[("selfies", STR)]),
    dict(name="split_selfies", file="selfies/utils/selfies_utils.py", group="UtilFns",
         params=[("selfies", STR)], generator=STR),
    dict(name="get_alphabet_from_selfies", file="selfies/utils/selfies_utils.py", group="UtilFns",
         params=[("selfies_iter", Lst(STR))],
         callees=[("split_selfies", "selfies.utils.selfies_utils", Fn(Gen(STR), STR))]),
]
MODULE_OF_FILE = {"selfies/grammar_rules.py": "selfies.grammar_rules",
                  "selfies/bond_constraints.py": "selfies.bond_constraints",
                  "selfies/mol_graph.py": "selfies.mol_graph",
                  "selfies/decoder.py": "selfies.decoder",
                  "selfies/utils/encoding_utils.py": "selfies.utils.encoding_utils",
                  "selfies/utils/selfies_utils.py": "selfies.utils.selfies_utils"}
GROUPS = {
    "IndexFns": dict(imports=["SelfiesVerif.Generated.Tables"], fallbacks="translatorFallbacksIndex"),
    "CapacityFns": dict(imports=[], fallbacks="translatorFallbacksCapacity"),
    "ReadIndexFns": dict(imports=["SelfiesVerif.Generated.IndexFns"], fallbacks="translatorFallbacksReadIndex"),
    "EncodingFns": dict(imports=[], fallbacks="translatorFallbacksEncoding"),
    "UtilFns": dict(imports=[], fallbacks="translatorFallbacksUtil"),
}
LEAN_RESERVED = set("""
at by do else end export extends for from fun have if import in instance let match mut namespace notation
open show structure then theorem where with universe variable axiom def deriving example macro syntax
private protected section set_option local return try catch finally unless break continue nomatch nofun
suffices calc using abbrev class inductive mutual opaque partial unsafe noncomputable termination_by
decreasing_by attribute omit include infix infixl infixr prefix postfix initialize this
some none min max decide true false not pure bind List Int Nat Option Except PyExc PyRt Str Py Bool Char
String Type Prop Sort fmtPlus intToStr lookup getIdx getKey indexCode indexAlphabet ι
""".split())
ALLOWED_DECORATORS = {"functools.lru_cache()", "functools.lru_cache", "lru_cache()", "lru_cache",
                      "property", "functools.cache", "cache"}


def lean_name(spec):
    return spec.get("lean", spec["name"])


class ModuleInfo:
    def __init__(self, path, modname):
        with open(path, encoding="utf-8") as f:
            self.tree = ast.parse(f.read())
        self.modname = modname
        self.imported = {}      # local name -> (module, original name)
        self.assigned = set()   # names (re)bound at module level
        self.defs = {}
        self.classes = {}
        for n in self.tree.body:
            if isinstance(n, ast.ImportFrom):
                for a in n.names:
                    self.imported[a.asname or a.name] = (n.module, a.name)
            elif isinstance(n, ast.FunctionDef):
                self.defs[n.name] = n
            elif isinstance(n, ast.ClassDef):
                self.classes[n.name] = {m.name: m for m in n.body if isinstance(m, ast.FunctionDef)}
            else:
                for x in ast.walk(n):
                    if isinstance(x, ast.Name) and isinstance(x.ctx, ast.Store):
                        self.assigned.add(x.id)


def assigned_names(stmts):
    """names bound anywhere in the statements (assignment, augmented assignment, loop targets,
    mutating method calls `x.append(..)`, `x.reverse()`, and `next(x)`)"""
    out = []

    def add(n):
        if n not in out:
            out.append(n)
    for s in stmts:
        for x in ast.walk(s):
            if isinstance(x, ast.Name) and isinstance(x.ctx, ast.Store):
                add(x.id)
            elif isinstance(x, ast.Call) and isinstance(x.func, ast.Attribute) \
                    and isinstance(x.func.value, ast.Name) and x.func.attr in MUTATORS:
                add(x.func.value.id)
            elif isinstance(x, ast.Call) and isinstance(x.func, ast.Name) and x.func.id == "next" \
                    and x.args and isinstance(x.args[0], ast.Name):
                add(x.args[0].id)
            elif isinstance(x, ast.Subscript) and isinstance(x.ctx, ast.Store) and isinstance(x.value, ast.Name):
                add(x.value.id)
    return out


MUTATORS = ("append", "reverse", "extend", "insert", "pop", "remove", "clear", "sort", "update",
            "add", "discard", "setdefault", "popitem")


def used_names(nodes):
    out = set()
    for s in nodes:
        for x in ast.walk(s):
            if isinstance(x, ast.Name):
                out.add(x.id)
    return out


TYPE_RANK = {INT: 0, NAT: 1, BOOL: 2, STR: 3}


def type_rank(t):
    t = norm(t)
    if isinstance(t, str):
        return TYPE_RANK.get(t, 4)
    return {"Option": 5, "Tuple": 6, "List": 7, "Dict": 8, "Iter": 9, "Union": 8}.get(t[0], 10)


class TrX:
    """one function of the wider subset"""

    def __init__(self, spec, mod, registry):
        self.spec = spec
        self.mod = mod
        self.registry = registry       # python name -> (spec, signature info) of translated callees
        self.fname = lean_name(spec)
        self.pending = []              # hoisted effects of the expression being translated
        self.pure_only = False
        self.ntmp = 0
        self.nloop = 0
        self.aux = []                  # auxiliary definitions (while loops)
        self.globals_used = []         # (name, type) of module globals that became parameters
        self.rets = []                 # return types seen
        self.iter_params = [p for p, t in spec.get("params", []) if t == ITER]
        self.tables_used = set()
        self.prefix = "t"
        self.cur_tail = None
        self.gen_end = None
        self.gen_allowed = False

    # ---- helpers
    def tmp(self):
        self.ntmp += 1
        return "%s_%d" % (self.prefix, self.ntmp)

    def effect(self, text, ty):
        """bind the result of a computation that can raise; returns the name of the result"""
        if self.pure_only:
            raise NeedsMonad()
        t = self.tmp()
        self.pending.append(("bind", t, text, ty))
        return t

    def flush(self, pad):
        out = []
        for kind, name, text, ty in self.pending:
            if kind == "bind":
                out.append("%slet %s ← %s\n" % (pad, name, text))
            else:
                out.append("%slet %s : %s := %s\n" % (pad, name, render(ty), text))
        self.pending = []
        return "".join(out)

    def isolated(self, f):
        """run f() collecting its effects separately: returns (pending, result)"""
        saved = self.pending
        self.pending = []
        try:
            r = f()
            return self.pending, r
        finally:
            self.pending = saved

    def as_int(self, t, ty):
        ty = norm(ty)
        if ty == INT:
            return t
        if ty == NAT:
            return "((%s : Nat) : Int)" % t
        raise Unsupported("type %s where an int is expected" % render(ty))

    def as_key(self, t, ty):
        ty = norm(ty)
        if ty == STR:
            return "(some %s)" % t
        if ty == Opt(STR):
            return t
        if ty == NONE:
            return "(none : Option Str)"
        raise Unsupported("dict key of type %s" % render(ty))

    def truth(self, t, ty):
        ty = norm(ty)
        if ty == BOOL:
            return t
        if ty in (INT, NAT):
            return "(decide (%s ≠ 0))" % t
        if ty == Opt(INT):
            return "(match %s with | some py_v => (decide (py_v ≠ 0)) | none => false)" % t
        if isinstance(ty, tuple) and ty[0] == "List" or ty == STR:
            return "(!(List.isEmpty %s))" % t
        raise Unsupported("truth value of %s" % render(ty))

    def lookup_name(self, name, env):
        if name in env:
            return name, env[name]
        # a table of selfies.constants, imported under its own name and never rebound
        if name in CONSTANT_TABLES and self.mod.imported.get(name) == ("selfies.constants", name) \
                and name not in self.mod.assigned:
            self.tables_used.add(name)
            return CONSTANT_TABLES[name]
        for g, ty in self.spec.get("globals", []):
            if g == name:
                if (g, ty) not in self.globals_used:
                    self.globals_used.append((g, ty))
                return g, ty
        raise Unsupported("unknown name %s" % name)

    # ---- expressions: (lean text, type); effects go to self.pending
    def expr(self, e, env):
        if isinstance(e, ast.Constant):
            if e.value is None:
                return "none", NONE
            if isinstance(e.value, bool):
                return ("true" if e.value else "false"), BOOL
            if isinstance(e.value, int):
                return ("(%d : Int)" % e.value if e.value >= 0 else "(-%d : Int)" % -e.value), INT
            if isinstance(e.value, str):
                return lean_str(e.value), STR
            raise Unsupported("constant %r" % (e.value,))
        if isinstance(e, ast.Name):
            return self.lookup_name(e.id, env)
        if isinstance(e, ast.Attribute):
            if isinstance(e.value, ast.Name) and e.value.id == "self" and "self" not in env:
                for a, ty in self.spec.get("self_attrs", []):
                    if a == e.attr:
                        n = "self_" + a
                        return n, env.get(n, ty)
            raise Unsupported("attribute %s" % e.attr)
        if isinstance(e, ast.UnaryOp):
            t, ty = self.expr(e.operand, env)
            if isinstance(e.op, ast.USub):
                return "(-%s)" % self.as_int(t, ty), INT
            if isinstance(e.op, ast.Not):
                return "(!%s)" % self.truth(t, ty), BOOL
            raise Unsupported("unary op")
        if isinstance(e, ast.BinOp):
            return self.binop(e.op, e.left, e.right, env)
        if isinstance(e, ast.Compare):
            return self.compare(e, env)
        if isinstance(e, ast.BoolOp):
            return self.boolop(e, env)
        if isinstance(e, ast.IfExp):
            return self.ifexp(e, env)
        if isinstance(e, ast.Call):
            return self.call(e, env)
        if isinstance(e, ast.Subscript):
            return self.subscript(e, env)
        if isinstance(e, ast.List):
            parts = [self.expr(x, env) for x in e.elts]
            if not parts:
                return "[]", Lst(TVar())
            ty = parts[0][1]
            for _, t2 in parts[1:]:
                if not unify(ty, t2):
                    raise Unsupported("list of mixed types")
            return "[" + ", ".join(p[0] for p in parts) + "]", Lst(ty)
        if isinstance(e, ast.Tuple):
            parts = [self.expr(x, env) for x in e.elts]
            return "(" + ", ".join(p[0] for p in parts) + ")", Tup(*[p[1] for p in parts])
        if isinstance(e, ast.JoinedStr):
            return self.fstring(e, env)
        if isinstance(e, ast.ListComp):
            return self.listcomp(e, env)
        raise Unsupported("expression %s" % type(e).__name__)

    def listcomp(self, e, env):
        """`[f(x) for x in xs]` (one generator, no condition) -> `List.map`, or `List.mapM` when
        `f` can raise; `[e for v in vs for e in v]` -> `List.flatten`"""
        gens = e.generators
        if len(gens) == 2 and all(isinstance(g.target, ast.Name) and not g.ifs and not g.is_async for g in gens) \
                and isinstance(gens[1].iter, ast.Name) and gens[1].iter.id == gens[0].target.id \
                and isinstance(e.elt, ast.Name) and e.elt.id == gens[1].target.id \
                and gens[0].target.id not in env and gens[1].target.id not in env:
            lst, elem = self.iterable(gens[0].iter, env)
            elem = norm(elem)
            if isinstance(elem, tuple) and elem[0] == "List":
                return "(List.flatten %s)" % lst, elem
            raise Unsupported("nested comprehension over %s" % render(elem))
        if len(gens) != 1 or gens[0].ifs or gens[0].is_async or not isinstance(gens[0].target, ast.Name):
            raise Unsupported("comprehension form")
        v = gens[0].target.id
        if v in env:
            raise Unsupported("comprehension variable shadows %s" % v)
        lst, elem = self.iterable(gens[0].iter, env)
        env2 = dict(env)
        env2[v] = elem
        pend, (t, ty) = self.isolated(lambda: self.expr(e.elt, env2))
        if not pend:
            return "(List.map (fun (%s : %s) => %s) %s)" % (v, render(elem), t, lst), Lst(ty)
        binds = "".join("let %s ← %s; " % (p[1], p[2]) if p[0] == "bind"
                        else "let %s : %s := %s; " % (p[1], render(p[3]), p[2]) for p in pend)
        text = "List.mapM (m := Py) (fun (%s : %s) => do %sExcept.ok %s) %s" % (v, render(elem), binds, t, lst)
        return self.effect(text, Lst(ty)), Lst(ty)

    def binop(self, op, left, right, env):
        a, ta = self.expr(left, env)
        if isinstance(op, ast.Pow):
            # the exponent must be non-negative by construction (a negative one gives a float)
            if isinstance(right, ast.Constant) and isinstance(right.value, int) \
                    and not isinstance(right.value, bool) and right.value >= 0:
                return "(%s ^ (%d : Nat))" % (self.as_int(a, ta), right.value), INT
            b, tb = self.expr(right, env)
            if norm(tb) != NAT:
                raise Unsupported("** with an exponent that is not known to be non-negative")
            return "(%s ^ %s)" % (self.as_int(a, ta), b), INT
        if isinstance(op, ast.Add) and isinstance(norm(ta), tuple) and norm(ta)[0] == "List" \
                and isinstance(right, ast.List) and isinstance(left, ast.Name):
            # `xs + [e, …]`: the elements are coerced to the element type of xs (None-able lists)
            want = norm(ta)[1]
            if left.id in self.nullable_lists and isinstance(resolve(want), TVar):
                unify(want, Opt(TVar()))
            items = []
            for x in right.elts:
                t, ty = self.expr(x, env)
                w = resolve(want)
                if isinstance(w, TVar):
                    unify(w, ty if norm(ty) != NONE else Opt(TVar()))
                items.append(self.coerce(t, ty, resolve(want)))
            return "(%s ++ [%s])" % (a, ", ".join(items)), norm(ta)
        b, tb = self.expr(right, env)
        ta, tb = norm(ta), norm(tb)
        if isinstance(op, ast.Add) and ta == STR and tb == STR:
            return "(%s ++ %s)" % (a, b), STR
        if isinstance(op, ast.Add) and isinstance(ta, tuple) and ta[0] == "List" and unify(ta, tb):
            return "(%s ++ %s)" % (a, b), ta
        if isinstance(op, ast.Mult) and ta == STR and tb in (INT, NAT):
            return "(PyRt.strMul %s %s)" % (a, self.as_int(b, tb)), STR
        if isinstance(op, ast.Mult) and isinstance(ta, tuple) and ta[0] == "List" and tb in (INT, NAT):
            return "(PyRt.listMul %s %s)" % (a, self.as_int(b, tb)), ta
        ops = {ast.Add: "+", ast.Sub: "-", ast.Mult: "*"}
        if type(op) in ops:
            return "(%s %s %s)" % (self.as_int(a, ta), ops[type(op)], self.as_int(b, tb)), INT
        if isinstance(op, ast.FloorDiv):
            return self.effect("PyRt.floorDiv %s %s" % (self.as_int(a, ta), self.as_int(b, tb)), INT), INT
        if isinstance(op, ast.Mod) and ta != STR:
            return self.effect("PyRt.mod %s %s" % (self.as_int(a, ta), self.as_int(b, tb)), INT), INT
        raise Unsupported("binary op %s" % type(op).__name__)

    def compare(self, e, env):
        syms = {ast.Eq: "=", ast.NotEq: "≠", ast.Lt: "<", ast.LtE: "≤", ast.Gt: ">", ast.GtE: "≥"}
        left = e.left
        parts = []
        lt = self.expr(left, env)
        for k, (op, right) in enumerate(zip(e.ops, e.comparators)):
            # operands after the second are only evaluated if the chain is still true
            if k >= 1:
                pend, rt = self.isolated(lambda: self.expr(right, env))
                if pend:
                    raise Unsupported("effect in a chained comparison")
            else:
                rt = self.expr(right, env)
            (a, ta), (b, tb) = lt, rt
            ta, tb = norm(ta), norm(tb)
            if isinstance(op, (ast.Is, ast.IsNot)):
                if not (isinstance(right, ast.Constant) and right.value is None):
                    raise Unsupported("is")
                if isinstance(ta, tuple) and ta[0] == "Option":
                    parts.append("(Option.%s %s)" % ("isNone" if isinstance(op, ast.Is) else "isSome", a))
                elif ta == NONE:
                    parts.append("true" if isinstance(op, ast.Is) else "false")
                else:
                    parts.append("false" if isinstance(op, ast.Is) else "true")
            elif isinstance(op, (ast.In, ast.NotIn)):
                if isinstance(right, (ast.Tuple, ast.List)) and right.elts and ta in (STR, INT) and all(
                        isinstance(y, ast.Constant) and type(y.value) is (str if ta == STR else int)
                        for y in right.elts):
                    # `x in ("a", "b")`: membership in a literal tuple / list of constants
                    t = "(List.elem %s [%s])" % (a, ", ".join(self.expr(y, env)[0] for y in right.elts))
                elif ta == STR and tb == STR:
                    t = "(PyRt.strContains %s %s)" % (b, a)     # substring test
                elif isinstance(tb, tuple) and tb[0] == "Dict" and norm(tb[2]) == INT and norm(tb[1]) == STR:
                    if ta != STR:
                        raise Unsupported("dict key of type %s" % render(ta))
                    t = "(PyRt.dictHasSI %s %s)" % (b, a)
                elif isinstance(tb, tuple) and tb[0] == "Dict":
                    t = "(PyRt.dictHas %s %s)" % (b, self.as_key(a, ta))
                elif isinstance(tb, tuple) and tb[0] == "List" and norm(tb[1]) == ta and ta in (STR, INT):
                    t = "(List.elem %s %s)" % (a, b)
                else:
                    raise Unsupported("in")
                parts.append(t if isinstance(op, ast.In) else "(!%s)" % t)
            elif type(op) in syms:
                if ta == STR and tb == STR and isinstance(op, (ast.Eq, ast.NotEq)):
                    parts.append("(decide (%s %s %s))" % (a, syms[type(op)], b))
                else:
                    parts.append("(decide (%s %s %s))" % (self.as_int(a, ta), syms[type(op)], self.as_int(b, tb)))
            else:
                raise Unsupported("compare op")
            lt = rt
        return "(" + " && ".join(parts) + ")", BOOL

    def branches(self, cases, env_of=None):
        """cases: list of (head text, thunk) where thunk() -> (text, type).  Builds one
        expression out of alternatives that are evaluated conditionally.  Returns
        (list of (head, text), type, monadic?)"""
        done = []
        ty = None
        monadic = False
        for head, thunk in cases:
            pend, (t, tt) = self.isolated(thunk)
            if pend:
                monadic = True
            done.append((head, pend, t, tt))
        # join the types: equal, or Int / None -> Option Int
        tys = [norm(d[3]) for d in done]
        if all(unify(tys[0], t) for t in tys[1:]):
            ty = tys[0]
            conv = [lambda t, tt: t] * len(done)
        elif all(t in (INT, NAT, NONE, Opt(INT)) for t in tys):
            ty = Opt(INT)
            conv = [lambda t, tt: self.to_opt_int(t, tt)] * len(done)
        else:
            raise Unsupported("alternatives of different types")
        if ty == NONE:
            ty = Opt(INT)
            conv = [lambda t, tt: self.to_opt_int(t, tt)] * len(done)
        out = []
        for (head, pend, t, tt), c in zip(done, conv):
            t = c(t, tt)
            if monadic:
                if self.pure_only:
                    raise NeedsMonad()
                binds = "".join("let %s ← %s; " % (p[1], p[2]) if p[0] == "bind"
                                else "let %s : %s := %s; " % (p[1], render(p[3]), p[2]) for p in pend)
                t = "(do %sExcept.ok %s)" % (binds, t) if pend else "(Except.ok %s)" % t
            out.append((head, t))
        return out, ty, monadic

    def to_opt_int(self, t, ty):
        ty = norm(ty)
        if ty == NONE:
            return "(none : Option Int)"
        if ty in (INT, NAT):
            return "(some %s)" % self.as_int(t, ty)
        if ty == Opt(INT):
            return t
        raise Unsupported("cannot make Option Int of %s" % render(ty))

    def none_test(self, test, env):
        """`X is None` / `X is not None` on a variable of Option type -> (X text, name, inner
        type, positive?) else None"""
        if isinstance(test, ast.Compare) and len(test.ops) == 1 and isinstance(test.ops[0], (ast.Is, ast.IsNot)) \
                and isinstance(test.comparators[0], ast.Constant) and test.comparators[0].value is None \
                and isinstance(test.left, (ast.Name, ast.Attribute)):
            t, ty = self.expr(test.left, env)
            ty = norm(ty)
            if isinstance(ty, tuple) and ty[0] == "Option":
                return t, ty[1], isinstance(test.ops[0], ast.Is)
        return None

    def finish_alternatives(self, fmt, alts, ty, monadic):
        text = fmt % tuple(t for _, t in alts)
        if monadic:
            return self.effect(text, ty), ty
        return text, ty

    def ifexp(self, e, env):
        nt = self.none_test(e.test, env)
        if nt is not None:
            x, inner, is_none = nt
            env2 = dict(env)
            env2[x] = inner
            on_none, on_some = (e.body, e.orelse) if is_none else (e.orelse, e.body)
            alts, ty, mon = self.branches([("none", lambda: self.expr(on_none, env)),
                                           ("some", lambda: self.expr(on_some, env2))])
            return self.finish_alternatives("(match %s with | none => %%s | some %s => %%s)" % (x, x), alts, ty, mon)
        c, tc = self.expr(e.test, env)
        c = self.truth(c, tc)
        alts, ty, mon = self.branches([("then", lambda: self.expr(e.body, env)),
                                       ("else", lambda: self.expr(e.orelse, env))])
        return self.finish_alternatives("(if %s then %%s else %%s)" % c, alts, ty, mon)

    def boolop(self, e, env):
        first, tf = self.expr(e.values[0], env)
        tf = norm(tf)
        if tf == BOOL:
            # logical use; later operands must be effect free Bool expressions
            parts = [first]
            for v in e.values[1:]:
                pend, (t, ty) = self.isolated(lambda: self.expr(v, env))
                if pend:
                    raise Unsupported("effect in a short-circuit operand of and/or on Bool")
                parts.append(self.truth(t, ty) if norm(ty) == BOOL else self.need_bool(ty))
            op = "&&" if isinstance(e.op, ast.And) else "||"
            return "(" + (" %s " % op).join(parts) + ")", BOOL
        # value semantics: `a or b` is a if a is truthy else b ; `a and b` is b if a is truthy else a
        if not isinstance(e.op, ast.Or):
            raise Unsupported("`and` on non-Bool values")
        rest = e.values[1:]
        rest_e = rest[0] if len(rest) == 1 else ast.BoolOp(op=ast.Or(), values=rest)
        if tf in (INT, NAT):
            a = self.as_int(first, tf)
            alts, ty, mon = self.branches([("t", lambda: (a, INT)), ("f", lambda: self.expr(rest_e, env))])
            if norm(ty) != INT:
                raise Unsupported("`or` of different types")
            return self.finish_alternatives("(if (decide (%s ≠ 0)) then %%s else %%s)" % a, alts, ty, mon)
        if tf == Opt(INT):
            v = self.tmp()
            alts, ty, mon = self.branches([("t", lambda: (v, INT)), ("f", lambda: self.expr(rest_e, env)),
                                           ("n", lambda: self.expr(rest_e, env))])
            if norm(ty) != INT:
                raise Unsupported("`or` of different types")
            return self.finish_alternatives(
                "(match %s with | some %s => (if (decide (%s ≠ 0)) then %%s else %%s) | none => %%s)" % (first, v, v),
                alts, ty, mon)
        raise Unsupported("`or` on values of type %s" % render(tf))

    def need_bool(self, ty):
        raise Unsupported("type %s where Bool expected" % render(ty))

    def format_pieces(self, fmt, args, env):
        """"…{}…{:+}…".format(args) -> concatenation"""
        pieces = []
        auto = 0
        for lit, field, spec, conv in _string.Formatter().parse(fmt):
            if lit:
                pieces.append(lean_str(lit))
            if field is None:
                continue
            if conv is not None:
                raise Unsupported("format conversion")
            if field == "":
                idx = auto
                auto += 1
            elif field.isdigit():
                idx = int(field)
            else:
                raise Unsupported("format field %r" % field)
            if idx >= len(args):
                raise Unsupported("format arity")
            pieces.append(self.format_value(args[idx], spec or "", env))
        return pieces

    def format_value(self, node, spec, env):
        t, ty = self.expr(node, env)
        ty = norm(ty)
        if ty in (INT, NAT) and spec in ("", "d"):
            return "(intToStr %s)" % self.as_int(t, ty)
        if ty in (INT, NAT) and spec in ("+", "+d"):
            return "(fmtPlus %s)" % self.as_int(t, ty)
        if ty == STR and spec in ("", "s"):
            return t
        raise Unsupported("format spec %r on %s" % (spec, render(ty)))

    def concat(self, pieces):
        if not pieces:
            return lean_str(""), STR
        acc = pieces[0]
        for p in pieces[1:]:
            acc = "(%s ++ %s)" % (acc, p)
        return acc, STR

    def fstring(self, e, env):
        pieces = []
        for v in e.values:
            if isinstance(v, ast.Constant) and isinstance(v.value, str):
                pieces.append(lean_str(v.value))
            elif isinstance(v, ast.FormattedValue):
                if v.conversion != -1:
                    raise Unsupported("f-string conversion")
                spec = ""
                if v.format_spec is not None:
                    if not (len(v.format_spec.values) == 1 and isinstance(v.format_spec.values[0], ast.Constant)):
                        raise Unsupported("f-string format spec")
                    spec = v.format_spec.values[0].value
                pieces.append(self.format_value(v.value, spec, env))
            else:
                raise Unsupported("f-string part")
        return self.concat(pieces)

    def call(self, e, env):
        f = e.func
        if e.keywords:
            raise Unsupported("keyword arguments")
        if isinstance(f, ast.Name) and f.id not in env:
            if f.id in ("min", "max") and len(e.args) >= 2:
                parts = []
                for a in e.args:
                    t, ty = self.expr(a, env)
                    parts.append(self.as_int(t, ty))
                acc = parts[0]
                for p in parts[1:]:
                    acc = "(%s %s %s)" % (f.id, acc, p)
                return acc, INT
            if f.id == "list" and not e.args:
                return "[]", Lst(TVar())
            if f.id == "set" and not e.args:
                return "[]", Set(TVar())
            if f.id == "set" and len(e.args) == 1 and not isinstance(e.args[0], ast.Starred):
                # `set(xs)` of a list, a set or a generator (which is run to its end first: the
                # exception that ends it, if any, is raised here)
                t, ty = self.expr(e.args[0], env)
                ty = norm(ty)
                if isinstance(ty, tuple) and ty[0] == "Gen":
                    t, ty = self.effect("PyRt.genList %s" % t, Lst(ty[1])), Lst(ty[1])
                if isinstance(ty, tuple) and ty[0] in ("List", "Set") and not isinstance(resolve(ty[1]), TVar):
                    return "(PyRt.setOfList %s)" % t, Set(ty[1])
                raise Unsupported("set of %s" % render(ty))
            if f.id == "len" and len(e.args) == 1:
                t, ty = self.expr(e.args[0], env)
                ty = norm(ty)
                if ty == STR or (isinstance(ty, tuple) and ty[0] in ("List", "Dict")):
                    return "(List.length %s)" % t, NAT
                raise Unsupported("len of %s" % render(ty))
            if f.id == "divmod" and len(e.args) == 2:
                a, ta = self.expr(e.args[0], env)
                b, tb = self.expr(e.args[1], env)
                return self.effect("PyRt.divmod %s %s" % (self.as_int(a, ta), self.as_int(b, tb)),
                                   Tup(INT, INT)), Tup(INT, INT)
            if f.id == "next" and len(e.args) == 1 and isinstance(e.args[0], ast.Name) \
                    and norm(env.get(e.args[0].id)) == ITER:
                it = e.args[0].id
                r = self.effect("py_next %s" % it, Tup(ITER_ITEM, ITER))
                self.pending.append(("let", it, "%s.2" % r, ITER))
                return "%s.1" % r, ITER_ITEM
            if f.id == "list" and len(e.args) == 1 and isinstance(e.args[0], ast.Call) and not e.args[0].args \
                    and not e.args[0].keywords and isinstance(e.args[0].func, ast.Attribute) \
                    and e.args[0].func.attr in ("values", "keys"):
                # `list(d.values())` / `list(d.keys())`: insertion order
                d, td = self.expr(e.args[0].func.value, env)
                td = norm(td)
                if isinstance(td, tuple) and td[0] == "Dict":
                    which = e.args[0].func.attr
                    return "(List.map %s %s)" % ("Prod.snd" if which == "values" else "Prod.fst", d), \
                        Lst(td[2] if which == "values" else td[1])
                raise Unsupported("%s of %s" % (e.args[0].func.attr, render(td)))
            if f.id in self.registry:
                return self.call_translated(f.id, e, env)
            raise Unsupported("call of %s" % f.id)
        if isinstance(f, ast.Name) and f.id in env and isinstance(norm(env[f.id]), tuple) and norm(env[f.id])[0] == "Fn":
            ft = norm(env[f.id])
            if len(e.args) != len(ft) - 2 or any(isinstance(a, ast.Starred) for a in e.args):
                raise Unsupported("arity of call to %s" % f.id)
            args = []
            for a, want in zip(e.args, ft[2:]):
                t, ty = self.expr(a, env)
                args.append(self.coerce(t, ty, want))
            return "(%s %s)" % (f.id, " ".join(args)), ft[1]
        if isinstance(f, ast.Attribute):
            if isinstance(f.value, ast.Constant) and isinstance(f.value.value, str) and f.attr == "format":
                if any(isinstance(a, ast.Starred) for a in e.args):
                    raise Unsupported("format(*args)")
                return self.concat(self.format_pieces(f.value.value, e.args, env))
            if isinstance(f.value, ast.Constant) and f.value.value == "" and f.attr == "join" and len(e.args) == 1:
                t, ty = self.expr(e.args[0], env)
                if norm(ty) == Lst(STR):
                    return "(List.flatten %s)" % t, STR
                raise Unsupported("join of %s" % render(ty))
            if isinstance(f.value, ast.Constant) and isinstance(f.value.value, str) and f.value.value != "" \
                    and f.attr == "join" and len(e.args) == 1:
                t, ty = self.expr(e.args[0], env)
                if norm(ty) == Lst(STR):
                    return "(PyRt.strJoin %s %s)" % (lean_str(f.value.value), t), STR
                raise Unsupported("join of %s" % render(ty))
            if f.attr == "find" and len(e.args) in (1, 2) and isinstance(e.args[0], ast.Constant) \
                    and isinstance(e.args[0].value, str) and len(e.args[0].value) == 1:
                # `s.find("c")` / `s.find("c", start)` for a one-character needle (-1 if absent)
                v, tv = self.expr(f.value, env)
                if norm(tv) != STR:
                    raise Unsupported("find method of %s" % render(tv))
                st = "(0 : Int)"
                if len(e.args) == 2:
                    a, ta = self.expr(e.args[1], env)
                    st = self.as_int(a, ta)
                return "(PyRt.strFind1 %s %s %s)" % (v, lean_char(e.args[0].value), st), INT
            if f.attr == "count" and len(e.args) == 1 and isinstance(e.args[0], ast.Constant) \
                    and isinstance(e.args[0].value, str) and len(e.args[0].value) == 1:
                # `s.count("c")` for a one-character needle: occurrences cannot overlap
                v, tv = self.expr(f.value, env)
                if norm(tv) != STR:
                    raise Unsupported("count method of %s" % render(tv))
                return "(PyRt.strCount1 %s %s)" % (v, lean_char(e.args[0].value)), NAT
            if f.attr == "index" and len(e.args) == 1:
                v, tv = self.expr(f.value, env)
                tv = norm(tv)
                a, ta = self.expr(e.args[0], env)
                if tv == Lst(INT):
                    return self.effect("PyRt.listIndexOf %s %s" % (v, self.as_int(a, ta)), INT), INT
                if tv == Uni(INT, Lst(INT)):
                    return self.effect("PyRt.sumIndexOf %s %s" % (v, self.as_int(a, ta)), INT), INT
                raise Unsupported("index method of %s" % render(tv))
            if f.attr == "get" and len(e.args) in (1, 2):
                d, td = self.expr(f.value, env)
                td = norm(td)
                if isinstance(td, tuple) and td[0] == "Dict" and norm(td[2]) == INT and norm(td[1]) == STR:
                    k, tk = self.expr(e.args[0], env)
                    if norm(tk) != STR:
                        raise Unsupported("dict key of type %s" % render(tk))
                    if len(e.args) == 1 or norm(self.expr(e.args[1], env)[1]) == NONE:
                        return "(PyRt.dictGetSI? %s %s)" % (d, k), Opt(INT)
                    raise Unsupported("get with a default on this dict")
                if isinstance(td, tuple) and td[0] == "Dict":
                    k, tk = self.expr(e.args[0], env)
                    key = self.as_key(k, tk)
                    if len(e.args) == 1:
                        return "(PyRt.dictGet? %s %s)" % (d, key), Opt(INT)
                    dv, tdv = self.expr(e.args[1], env)
                    if norm(tdv) == NONE:
                        return "(PyRt.dictGet? %s %s)" % (d, key), Opt(INT)
                    return "(PyRt.dictGetD %s %s %s)" % (d, key, self.as_int(dv, tdv)), INT
            raise Unsupported("method %s" % f.attr)
        raise Unsupported("call")

    def call_translated(self, name, e, env):
        # the name must denote the translated function: defined at module level here, or imported
        callee, sig = self.registry[name]
        here = MODULE_OF_FILE[self.spec["file"]]
        there = MODULE_OF_FILE[callee["file"]]
        ok = (here == there and name in self.mod.defs) or self.mod.imported.get(name) == (there, name)
        if not ok or name in self.mod.assigned:
            raise Unsupported("call of %s (not the translated function)" % name)
        args = []
        for g, ty in sig["globals"]:
            if (g, ty) not in self.globals_used:
                self.globals_used.append((g, ty))
            args.append(g)
        params = list(callee.get("params", []))
        if callee.get("vararg"):
            if not (len(e.args) == 1 and isinstance(e.args[0], ast.Starred)):
                # explicit positional arguments make the vararg list
                parts = [self.expr(a, env) for a in e.args]
                want = callee["vararg"][1][1]
                items = [self.coerce(t, ty, want) for t, ty in parts]
                args.append("[" + ", ".join(items) + "]")
            else:
                t, ty = self.expr(e.args[0].value, env)
                ty = norm(ty)
                want = callee["vararg"][1]
                if isinstance(ty, tuple) and ty[0] == "List" and isinstance(norm(want[1]), tuple) \
                        and norm(want[1])[0] == "Option" and not isinstance(resolve(ty[1]), TVar) \
                        and norm(ty[1]) == norm(want[1][1]):
                    t = "(List.map some %s)" % t     # a list without None where None is allowed
                elif not unify(ty, want):
                    raise Unsupported("argument type %s for *%s" % (render(ty), callee["vararg"][0]))
                args.append(t)
        else:
            if len(e.args) != len(params) or any(isinstance(a, ast.Starred) for a in e.args):
                raise Unsupported("arity of call to %s" % name)
            for a, (p, want) in zip(e.args, params):
                t, ty = self.expr(a, env)
                args.append(self.coerce(t, ty, want))
        if sig.get("iter_params"):
            raise Unsupported("call of a function that advances an iterator")
        r = self.effect("%s %s" % (lean_name(callee), " ".join(args)), sig["ret"])
        return r, sig["ret"]

    def coerce(self, t, ty, want):
        ty, want = norm(ty), norm(want)
        if unify(ty, want):
            return t
        if want == INT and ty == NAT:
            return self.as_int(t, ty)
        if isinstance(want, tuple) and want[0] == "Option":
            if ty == NONE:
                return "(none : %s)" % render(want)
            if unify(ty, want[1]):
                return "(some %s)" % t
            if want[1] == INT and ty == NAT:
                return "(some %s)" % self.as_int(t, ty)
        raise Unsupported("value of type %s where %s expected" % (render(ty), render(want)))

    def subscript(self, e, env):
        v, tv = self.expr(e.value, env)
        tv = norm(tv)
        s = e.slice
        if isinstance(s, ast.Slice):
            if s.lower is None and s.upper is None and isinstance(s.step, ast.UnaryOp) \
                    and isinstance(s.step.op, ast.USub) and isinstance(s.step.operand, ast.Constant) \
                    and s.step.operand.value == 1 and (tv == STR or (isinstance(tv, tuple) and tv[0] == "List")):
                return "(List.reverse %s)" % v, tv
            if tv == STR and s.step is None and s.lower is not None and s.upper is not None:
                # `s[a:b]` on a str (never raises; negative indices count from the end)
                a, ta = self.expr(s.lower, env)
                b, tb = self.expr(s.upper, env)
                return "(PyRt.strSlice %s %s %s)" % (v, self.as_int(a, ta), self.as_int(b, tb)), STR
            raise Unsupported("slice")
        if isinstance(tv, tuple) and tv[0] == "Tuple":
            n = len(tv) - 1
            k = None
            if isinstance(s, ast.Constant) and isinstance(s.value, int):
                k = s.value
            elif isinstance(s, ast.UnaryOp) and isinstance(s.op, ast.USub) and isinstance(s.operand, ast.Constant) \
                    and isinstance(s.operand.value, int):
                k = -s.operand.value
            if k is None or not (-n <= k < n):
                raise Unsupported("tuple index")
            k %= n
            return proj(v, k, n), tv[1 + k]
        i, ti = self.expr(s, env)
        if isinstance(tv, tuple) and tv[0] == "Dict" and norm(tv[1]) == INT:
            if norm(ti) in (INT, NAT):
                return self.effect("PyRt.dictItemI %s %s" % (v, self.as_int(i, ti)), tv[2]), tv[2]
            if norm(ti) == Uni(INT, Lst(INT)):
                return self.effect("PyRt.dictItemSum %s %s" % (v, i), tv[2]), tv[2]
            raise Unsupported("dict key of type %s" % render(ti))
        if isinstance(tv, tuple) and tv[0] == "Dict" and norm(tv[2]) == INT and norm(tv[1]) == STR:
            if norm(ti) != STR:
                raise Unsupported("dict key of type %s" % render(ti))
            return self.effect("PyRt.dictItemSI %s %s" % (v, i), INT), INT
        if isinstance(tv, tuple) and tv[0] == "Dict":
            return self.effect("PyRt.dictItem %s %s" % (v, self.as_key(i, ti)), INT), INT
        if isinstance(tv, tuple) and tv[0] == "List" and norm(ti) == Uni(INT, Lst(INT)):
            return self.effect("PyRt.indexSum %s %s" % (v, i), tv[1]), tv[1]
        if isinstance(tv, tuple) and tv[0] == "List":
            return self.effect("PyRt.index %s %s" % (v, self.as_int(i, ti)), tv[1]), tv[1]
        raise Unsupported("subscript of %s" % render(tv))

    # ---- statements --------------------------------------------------------------------
    # k: what happens when control falls off the end of the block:
    #    None            -> function level: error
    #    ("yield", f)    -> f(env) gives the text of the value that the loop body yields
    def simple(self, s, env):
        """assignment-like statements.  Returns (lines after the effects, env') or None"""
        if isinstance(s, ast.Assign) and not (len(s.targets) == 1 and isinstance(s.targets[0], ast.Subscript)):
            if len(s.targets) != 1:
                raise Unsupported("chained assignment")
            tg = s.targets[0]
            if isinstance(s.value, ast.Name) and isinstance(norm(env.get(s.value.id, INT)), tuple) \
                    and norm(env[s.value.id])[0] in ("List", "Dict", "Iter", "Union", "Gen"):
                # `a = b` is only a copy if neither name is rebound or mutated in anything that
                # can run afterwards (known at function level only: the rest of the path)
                later = assigned_names(self.cur_tail) if self.cur_tail is not None else None
                if later is None or not isinstance(tg, ast.Name) or tg.id in later or s.value.id in later \
                        or norm(env[s.value.id])[0] == "Iter":
                    raise Unsupported("aliasing of a mutable value")
            t, ty = self.expr(s.value, env)
            return self.store(tg, t, ty, env)
        if isinstance(s, ast.Assign) and len(s.targets) == 1 and isinstance(s.targets[0], ast.Subscript) \
                and isinstance(s.targets[0].value, ast.Name) and s.targets[0].value.id in env \
                and not isinstance(s.targets[0].slice, ast.Slice):
            x = s.targets[0].value.id
            tx = norm(env[x])
            if x in self.frozen or not (isinstance(tx, tuple) and tx[0] == "List"):
                raise Unsupported("item assignment on %s" % render(tx))
            t, ty = self.expr(s.value, env)      # right hand side first, then the index
            i, ti = self.expr(s.targets[0].slice, env)
            item = self.coerce(t, ty, tx[1])
            r = self.effect("PyRt.setItem %s %s %s" % (x, self.as_int(i, ti), item), tx)
            return ["let %s : %s := %s" % (x, render(tx), r)], env
        if isinstance(s, ast.AugAssign):
            if not isinstance(s.target, ast.Name):
                raise Unsupported("augmented assignment target")
            load = ast.Name(id=s.target.id, ctx=ast.Load())
            t, ty = self.binop(s.op, load, s.value, env)
            return self.store(s.target, t, ty, env)
        if isinstance(s, ast.Expr) and isinstance(s.value, ast.Call) and isinstance(s.value.func, ast.Attribute) \
                and isinstance(s.value.func.value, ast.Name) and s.value.func.value.id in env:
            x = s.value.func.value.id
            tx = norm(env[x])
            m = s.value.func.attr
            if isinstance(tx, tuple) and tx[0] == "List" and not s.value.keywords:
                if m == "append" and len(s.value.args) == 1:
                    t, ty = self.expr(s.value.args[0], env)
                    want = tx[1]
                    if x in self.nullable_lists and isinstance(resolve(want), TVar):
                        unify(want, Opt(TVar()))
                    want = resolve(want)
                    if isinstance(want, TVar):
                        unify(want, ty if norm(ty) != NONE else Opt(TVar()))
                    item = self.coerce(t, ty, want)
                    return ["let %s : %s := (%s ++ [%s])" % (x, render(tx), x, item)], env
                if m == "reverse" and not s.value.args:
                    return ["let %s : %s := (List.reverse %s)" % (x, render(tx), x)], env
            if isinstance(tx, tuple) and tx[0] == "Set" and not s.value.keywords and x not in self.frozen \
                    and m in ("add", "discard") and len(s.value.args) == 1:
                t, ty = self.expr(s.value.args[0], env)
                want = resolve(tx[1])
                if isinstance(want, TVar):
                    if norm(ty) == NONE:
                        raise Unsupported("None in a set")
                    unify(want, ty)
                item = self.coerce(t, ty, resolve(want))
                return ["let %s : %s := (PyRt.%s %s %s)" % (
                    x, render(tx), "setAdd" if m == "add" else "setDiscard", x, item)], env
            raise Unsupported("method statement %s" % m)
        return None

    def store(self, tg, t, ty, env):
        if isinstance(tg, ast.Name):
            if norm(ty) == NONE:
                t, ty = "(none : Option Int)", Opt(INT)
            if tg.id in self.frozen:
                raise Unsupported("assignment to %s" % tg.id)
            env2 = dict(env)
            env2[tg.id] = ty
            return ["let %s : %s := %s" % (tg.id, render(ty), t)], env2
        if isinstance(tg, ast.Tuple) and all(isinstance(x, ast.Name) for x in tg.elts):
            ty = norm(ty)
            if not (isinstance(ty, tuple) and ty[0] == "Tuple" and len(ty) - 1 == len(tg.elts)):
                raise Unsupported("tuple assignment from %s" % render(ty))
            n = len(tg.elts)
            tmp = self.tmp()
            lines = ["let %s : %s := %s" % (tmp, render(ty), t)]
            env2 = dict(env)
            for i, x in enumerate(tg.elts):
                if x.id in self.frozen:
                    raise Unsupported("assignment to %s" % x.id)
                lines.append("let %s : %s := %s" % (x.id, render(ty[1 + i]), proj(tmp, i, n)))
                env2[x.id] = ty[1 + i]
            return lines, env2
        raise Unsupported("assignment target")

    def block(self, stmts, env, indent, k):
        pad = "  " * indent
        stmts = list(stmts)
        if not stmts:
            if k is None:
                raise Unsupported("fell off the end without return")
            return pad + k[1](env)
        s, tail = stmts[0], stmts[1:]
        if isinstance(s, ast.Expr) and isinstance(s.value, ast.Constant) and isinstance(s.value.value, str):
            return self.block(tail, env, indent, k)
        if isinstance(s, ast.Pass):
            return self.block(tail, env, indent, k)
        self.cur_tail = tail if k is None else None
        r = self.simple(s, env)
        self.cur_tail = None
        if r is not None:
            lines, env2 = r
            head = self.flush(pad)
            return head + "".join(pad + l + "\n" for l in lines) + self.block(tail, env2, indent, k)
        if isinstance(s, ast.Assert):
            c, tc = self.expr(s.test, env)
            c = self.truth(c, tc)
            head = self.flush(pad)
            body = self.block(tail, env, indent + 1, k)
            return "%s%sif %s then\n%s\n%selse %s" % (head, pad, c, body, pad, self.fail("AssertionError"))
        if isinstance(s, ast.If):
            nt = self.none_test(s.test, env)
            if nt is not None:
                x, inner, is_none = nt
                head = self.flush(pad)
                env2 = dict(env)
                env2[x] = inner
                on_none, on_some = (s.body, s.orelse) if is_none else (s.orelse, s.body)
                a = self.block(list(on_none) + tail, dict(env), indent + 1, k)
                b = self.block(list(on_some) + tail, env2, indent + 1, k)
                return "%s%smatch %s with\n%s| none =>\n%s\n%s| some %s =>\n%s" % (head, pad, x, pad, a, pad, x, b)
            c, tc = self.expr(s.test, env)
            c = self.truth(c, tc)
            head = self.flush(pad)
            j = self.joined_if(s, c, tail, env, indent, k)
            if j is not None:
                return head + j
            a = self.block(list(s.body) + tail, dict(env), indent + 1, k)
            b = self.block(list(s.orelse) + tail, dict(env), indent + 1, k)
            return "%s%sif %s then\n%s\n%selse\n%s" % (head, pad, c, a, pad, b)
        if isinstance(s, ast.Return):
            if k is not None:
                raise Unsupported("return inside a loop")
            return self.ret(s, env, pad)
        if isinstance(s, ast.Raise):
            return pad + self.raise_(s)
        if isinstance(s, ast.Continue):
            if k is None or k[0] != "yield":
                raise Unsupported("continue outside a for loop")
            return pad + k[1](env)
        if isinstance(s, ast.Break):
            if k is None or k[0] != "yield" or "py_broke" not in env:
                raise Unsupported("break outside a for loop")
            return "%slet py_broke : Bool := true\n%s%s" % (pad, pad, k[1](env))
        if isinstance(s, ast.For):
            return self.for_(s, tail, env, indent, k)
        if isinstance(s, ast.While):
            return self.while_(s, tail, env, indent, k)
        if isinstance(s, ast.Try):
            return self.try_(s, tail, env, indent, k)
        raise Unsupported("statement %s" % type(s).__name__)

    def joined_if(self, s, c, tail, env, indent, k):
        """an `if` whose branches only rebind variables that exist before it, followed by more
        statements: the branches yield the tuple of those variables and the rest of the block is
        emitted once (instead of once per branch).  Only for functions whose SPECS entry says
        `join_ifs` (the older groups keep the text that their frozen hand copies have)."""
        if not self.spec.get("join_ifs") or not tail:
            return None
        for x in ast.walk(s):
            if isinstance(x, (ast.Return, ast.Raise, ast.Continue, ast.Break, ast.For, ast.While, ast.Try)):
                return None
        branches = list(s.body) + list(s.orelse)
        asg = assigned_names(branches)
        if not asg or any(n not in env or n in self.frozen for n in asg):
            return None
        names = sorted(asg, key=lambda n: (type_rank(env[n]), n))
        pad = "  " * indent
        self.nloop += 1
        st = "st_%d" % self.nloop
        sname = names[0] if len(names) == 1 else st
        sty = self.state_type(names, env)

        def attempt(pure):
            saved = (self.pure_only, self.ntmp, list(self.aux), list(self.rets))
            self.pure_only = self.pure_only or pure
            try:
                y = (lambda e: self.stable(names, env, e) and self.state_tuple(names)) if pure else \
                    (lambda e: self.stable(names, env, e) and "Except.ok %s" % self.state_tuple(names))
                a = self.block(s.body, dict(env), indent + 2, ("yield", y))
                b = self.block(s.orelse, dict(env), indent + 2, ("yield", y))
                return a, b
            except NeedsMonad:
                self.pure_only, self.ntmp, self.aux, self.rets = saved
                raise
            finally:
                self.pure_only = saved[0]
        try:
            a, b = attempt(True)
            text = "%slet %s : %s := (if %s then\n%s\n%s  else\n%s)\n" % (pad, sname, sty, c, a, pad, b)
        except NeedsMonad:
            if self.pure_only:
                raise
            a, b = attempt(False)
            text = "%slet %s : %s ← (if %s then do\n%s\n%s  else do\n%s)\n" % (pad, sname, sty, c, a, pad, b)
        text += self.unpack(st, names, env, pad)
        return text + self.block(tail, env, indent, k)

    def fail(self, exc):
        if self.pure_only:
            raise NeedsMonad()
        return "Except.error PyExc.%s" % exc

    def raise_(self, s):
        e = s.exc
        if isinstance(e, ast.Call):
            # the arguments are only a message: constants and formatted names
            for a in e.args:
                for x in ast.walk(a):
                    if isinstance(x, (ast.Call, ast.Subscript, ast.BinOp)) and not (
                            isinstance(x, ast.Call) and isinstance(x.func, ast.Attribute) and x.func.attr == "format"):
                        raise Unsupported("raise with computed arguments")
            e = e.func
        if isinstance(e, ast.Name) and e.id in EXC_NAMES and s.cause is None:
            return self.fail(e.id)
        raise Unsupported("raise")

    def ret(self, s, env, pad):
        if s.value is None:
            raise Unsupported("return without value")
        t, ty = self.expr(s.value, env)
        head = self.flush(pad)
        self.rets.append(norm(ty))
        its = "".join("\x01" + p for p in self.iter_params)
        return "%s%s\x03RET%d\x01%s%s\x03" % (head, pad, len(self.rets) - 1, t, its)

    # ---- loops
    def loop_state(self, body_stmts, extra_nodes, env):
        names = [n for n in assigned_names(body_stmts) if n in env]
        names.sort(key=lambda n: (type_rank(env[n]), n))
        for n in names:
            if n in self.frozen:
                raise Unsupported("assignment to %s" % n)
        return names

    def stable(self, names, env0, env1):
        """the loop variables have the same types at the end of an iteration as at its start"""
        for n in names:
            if not unify(norm(env0[n]), norm(env1[n])):
                raise Unsupported("loop variable %s changes its type (%s, %s)" % (
                    n, render(env0[n]), render(env1[n])))
        return True

    def state_tuple(self, names):
        return names[0] if len(names) == 1 else "(" + ", ".join(names) + ")"

    def state_type(self, names, env):
        return render(env[names[0]]) if len(names) == 1 else render(Tup(*[env[n] for n in names]))

    def unpack(self, st, names, env, pad):
        if len(names) == 1:
            return ""
        return "".join("%slet %s : %s := %s\n" % (pad, n, render(env[n]), proj(st, i, len(names)))
                       for i, n in enumerate(names))

    def check_no_escape(self, s, allow_break=False):
        for x in ast.walk(s):
            if isinstance(x, ast.Return) or (isinstance(x, ast.Break) and not allow_break):
                raise Unsupported("%s inside a loop" % type(x).__name__.lower())
            if x is not s and isinstance(x, (ast.For, ast.While)) and allow_break \
                    and any(isinstance(y, ast.Break) for y in ast.walk(x)):
                raise Unsupported("break inside a nested loop")
        if s.orelse:
            raise Unsupported("loop else")

    def iterable(self, it, env):
        """-> (lean list text, element type)"""
        if isinstance(it, ast.Call) and isinstance(it.func, ast.Name) and it.func.id not in env \
                and not it.keywords:
            f = it.func.id
            if f == "reversed" and len(it.args) == 1:
                t, ty = self.iterable(it.args[0], env)
                return "(List.reverse %s)" % t, ty
            if f == "enumerate" and len(it.args) == 1:
                t, ty = self.iterable(it.args[0], env)
                return "(PyRt.enumerate %s)" % t, Tup(NAT, ty)
            if f == "range" and len(it.args) == 1:
                t, ty = self.expr(it.args[0], env)
                ty = norm(ty)
                if ty == NAT:
                    return "(List.range %s)" % t, NAT
                if ty == INT:   # range(n) is empty for n <= 0, and so is List.range (Int.toNat n)
                    return "(List.range (Int.toNat %s))" % t, NAT
            raise Unsupported("iterable %s(...)" % f)
        t, ty = self.expr(it, env)
        ty = norm(ty)
        if isinstance(ty, tuple) and ty[0] == "List":
            return t, ty[1]
        if isinstance(ty, tuple) and ty[0] == "Gen":
            # the items are folded over; the exception that ends the iteration (if any) is raised
            # after the loop (for_ emits `PyRt.genEnd`)
            if not self.gen_allowed:
                raise Unsupported("generator outside a for statement")
            g = self.tmp()
            self.pending.append(("let", g, t, ty))
            self.gen_end = "%s.2" % g
            return "%s.1" % g, ty[1]
        if isinstance(ty, tuple) and ty[0] == "Union" and all(
                isinstance(norm(u), tuple) and norm(u)[0] == "List" for u in ty[1:]):
            return "(PyRt.sumItems %s)" % t, Uni(norm(ty[1])[1], norm(ty[2])[1])
        if ty == STR:
            raise Unsupported("iteration over a str")
        raise Unsupported("iteration over %s" % render(ty))

    def for_(self, s, tail, env, indent, k):
        self.check_no_escape(s, allow_break=True)
        pad = "  " * indent
        self.gen_end = None
        self.gen_allowed = not isinstance(s.iter, ast.Call) or not isinstance(s.iter.func, ast.Name) \
            or s.iter.func.id not in ("reversed", "enumerate")
        npending = len(self.pending)
        try:
            lst, elem = self.iterable(s.iter, env)
        finally:
            self.gen_allowed = False
        gen_end = self.gen_end
        self.gen_end = None
        if gen_end is not None and self.pure_only:
            # the enclosing block is retried in monadic mode: drop the hoisted generator call
            del self.pending[npending:]
            raise NeedsMonad()
        head = self.flush(pad)
        names = self.loop_state(s.body, [], env)
        if not names:
            raise Unsupported("for loop without state")
        # `break`: a flag joins the state; once it is set the remaining iterations do nothing
        has_break = any(isinstance(x, ast.Break) for x in ast.walk(s))
        if has_break:
            if "py_broke" in env:
                raise Unsupported("break inside a nested loop")
            env = dict(env)
            env["py_broke"] = BOOL
            names = ["py_broke"] + names
            head += "%slet py_broke : Bool := false\n" % pad
        self.nloop += 1
        x = "x_%d" % self.nloop
        st = "st_%d" % self.nloop
        env2 = dict(env)
        pad2 = "  " * (indent + 2)
        target_lines = ""
        tg = s.target
        elem = norm(elem)
        if isinstance(tg, ast.Name):
            x = tg.id if tg.id != "_" else x
            if tg.id in env:
                raise Unsupported("loop variable shadows %s" % tg.id)
            env2[tg.id] = elem
        elif isinstance(tg, ast.Tuple) and all(isinstance(y, ast.Name) for y in tg.elts) \
                and isinstance(elem, tuple) and elem[0] == "Tuple" and len(elem) - 1 == len(tg.elts):
            for i, y in enumerate(tg.elts):
                if y.id in env:
                    raise Unsupported("loop variable shadows %s" % y.id)
                env2[y.id] = elem[1 + i]
                target_lines += "%slet %s : %s := %s\n" % (pad2, y.id, render(elem[1 + i]), proj(x, i, len(tg.elts)))
        else:
            raise Unsupported("loop target")
        sname = names[0] if len(names) == 1 else st
        sty = self.state_type(names, env)

        def attempt(pure):
            saved = (self.pure_only, self.ntmp, self.nloop, list(self.aux), list(self.rets))
            self.pure_only = self.pure_only or pure
            try:
                y = (lambda e: self.stable(names, env2, e) and self.state_tuple(names)) if pure else \
                    (lambda e: self.stable(names, env2, e) and "Except.ok %s" % self.state_tuple(names))
                if has_break:
                    return "%sif py_broke then\n%s  %s\n%selse\n%s" % (
                        pad2, pad2, y(env2), pad2, self.block(s.body, env2, indent + 3, ("yield", y)))
                return self.block(s.body, env2, indent + 2, ("yield", y))
            except NeedsMonad:
                self.pure_only, self.ntmp, self.nloop, self.aux, self.rets = saved
                raise
            finally:
                self.pure_only = saved[0]
        try:
            body = attempt(True)
            pure = True
        except NeedsMonad:
            if self.pure_only:
                raise
            body = attempt(False)
            pure = False
        un = self.unpack(st, names, env, pad2)
        init = self.state_tuple(names)
        if pure:
            text = "%s%slet %s : %s := List.foldl (fun (%s : %s) (%s : %s) =>\n%s%s%s\n%s    ) %s %s\n" % (
                head, pad, sname, sty, sname, sty, x, render(elem), un, target_lines, body, pad, init, lst)
        else:
            text = "%s%slet %s : %s ← List.foldlM (m := Py) (fun (%s : %s) (%s : %s) => do\n%s%s%s\n%s    ) %s %s\n" % (
                head, pad, sname, sty, sname, sty, x, render(elem), un, target_lines, body, pad, init, lst)
        text += self.unpack(st, names, env, pad)
        if gen_end is not None:
            text += "%slet _ ← PyRt.genEnd %s\n" % (pad, gen_end)
        return text + self.block(tail, env, indent, k)

    def find_measure(self, s, names, env):
        """(variable, divisor node) of a loop `while v…:` whose body divides v exactly once"""
        t = s.test
        v = None
        if isinstance(t, ast.Name):
            v = t.id
        elif isinstance(t, ast.Compare) and len(t.ops) == 1 and isinstance(t.comparators[0], ast.Constant) \
                and t.comparators[0].value == 0 and isinstance(t.left, ast.Name) \
                and isinstance(t.ops[0], (ast.NotEq, ast.Gt)):
            v = t.left.id
        elif isinstance(t, ast.Compare) and len(t.ops) == 1 and isinstance(t.left, ast.Constant) \
                and t.left.value == 0 and isinstance(t.comparators[0], ast.Name) \
                and isinstance(t.ops[0], (ast.NotEq, ast.Lt)):
            v = t.comparators[0].id
        if v is None or v not in names or norm(env[v]) != INT:
            raise Unsupported("while loop: no decreasing measure recognised (test)")
        writes = [x for st in s.body for x in ast.walk(st)
                  if isinstance(x, ast.Name) and x.id == v and isinstance(x.ctx, ast.Store)]
        if len(writes) != 1:
            raise Unsupported("while loop: %s is assigned %d times in the body" % (v, len(writes)))
        div = None
        for st in s.body:   # top level of the body only: executed in every iteration
            if isinstance(st, ast.AugAssign) and isinstance(st.target, ast.Name) and st.target.id == v \
                    and isinstance(st.op, ast.FloorDiv):
                div = st.value
            elif isinstance(st, ast.Assign) and len(st.targets) == 1:
                tg, val = st.targets[0], st.value
                if isinstance(tg, ast.Name) and tg.id == v and isinstance(val, ast.BinOp) \
                        and isinstance(val.op, ast.FloorDiv) and isinstance(val.left, ast.Name) and val.left.id == v:
                    div = val.right
                elif isinstance(tg, ast.Tuple) and tg.elts and isinstance(tg.elts[0], ast.Name) and tg.elts[0].id == v \
                        and isinstance(val, ast.Call) and isinstance(val.func, ast.Name) and val.func.id == "divmod" \
                        and len(val.args) == 2 and isinstance(val.args[0], ast.Name) and val.args[0].id == v:
                    div = val.args[1]
        if div is None:
            raise Unsupported("while loop: no decreasing measure recognised (body)")
        if isinstance(div, ast.Name) and div.id not in names and div.id in env:
            return v, div.id
        if isinstance(div, ast.Constant) and isinstance(div.value, int) and div.value >= 2:
            return v, str(div.value)
        raise Unsupported("while loop: divisor is not loop invariant")

    def while_(self, s, tail, env, indent, k):
        self.check_no_escape(s)
        for x in ast.walk(s):
            if isinstance(x, ast.Continue):
                raise Unsupported("continue inside a while loop")
        if self.pure_only:
            raise NeedsMonad()
        pad = "  " * indent
        names = self.loop_state(s.body, [s.test], env)
        v, divisor = self.find_measure(s, names, env)
        self.nloop += 1
        aux = "%s_while%d" % (self.fname, self.nloop)
        st = "st_%d" % self.nloop
        used = used_names([s.test] + list(s.body))
        caps = [n for n in env if n in used and n not in names]
        for g, ty in self.spec.get("globals", []):
            if g in used and (g, ty) not in self.globals_used:
                self.globals_used.append((g, ty))
        caps = [g for g, _ in self.globals_used if g in used and g not in caps] + caps
        capenv = dict(env)
        for g, ty in self.globals_used:
            capenv.setdefault(g, ty)
        sname = names[0] if len(names) == 1 else st
        sty = self.state_type(names, env)
        c, tc = self.expr(s.test, env)
        c = self.truth(c, tc)
        if self.pending:
            raise Unsupported("effect in a while test")
        call = "%s %s" % (aux, " ".join(caps + ["py_fuel"]))
        outer_frozen = self.frozen
        self.frozen = self.frozen | set(caps)
        body = self.block(s.body, dict(env), 3, ("yield", lambda e: self.stable(names, env, e)
                                                 and "%s %s" % (call, self.state_tuple(names))))
        self.frozen = outer_frozen
        doc = ("/-- `while` loop #%d of `%s` (line %d).  State: %s; read only: %s.\n"
               "    Fuel: `%s` is only changed by a floor division by `%s`, once per iteration, and the loop\n"
               "    runs while `%s` is non-zero.  For `%s ≥ 2` and `%s > 0` the quotient is smaller, so at\n"
               "    most `%s` iterations happen and `%s.toNat + 1` units of fuel (one per test) suffice;\n"
               "    if `%s < 2` the Python loop raises ZeroDivisionError or does not terminate, the latter\n"
               "    shows up as `.error .NonTermination`.  (Proved in Proofs/GenEq2.lean.) -/\n") % (
            self.nloop, self.spec["name"], s.lineno, self.state_tuple(names), ", ".join(caps) or "—",
            v, divisor, v, divisor, v, v, v, divisor)
        params = "".join(" (%s : %s)" % (n, render(capenv[n])) for n in caps)
        text = doc + "def %s%s : Nat → %s → Py %s\n  | 0, _ => Except.error PyExc.NonTermination\n" % (
            aux, params, sty, sty)
        text += "  | py_fuel + 1, %s => do\n" % sname
        text += self.unpack(st, names, env, "    ")
        text += "    if %s then\n%s\n    else\n      Except.ok %s\n" % (c, body, self.state_tuple(names))
        self.aux.append(text)
        out = "%slet %s : %s ← %s %s (Int.toNat %s + 1) %s\n" % (
            pad, sname, sty, aux, " ".join(caps), v, self.state_tuple(names))
        out = out.replace("  (Int", " (Int")
        out += self.unpack(st, names, env, pad)
        return out + self.block(tail, env, indent, k)

    def try_(self, s, tail, env, indent, k):
        """`try: S1; S2… except E: H`.  Only S1 may raise (S2… must be effect free), and S1 has
        exactly one raising operation, evaluated before S1 stores anything; so the handler runs
        in the state of the entry of the `try`."""
        pad = "  " * indent
        pad1 = "  " * (indent + 1)
        if s.orelse or s.finalbody or len(s.handlers) != 1 or getattr(s.handlers[0], "name", None):
            raise Unsupported("try form")
        h = s.handlers[0]
        if not (isinstance(h.type, ast.Name) and h.type.id in EXC_NAMES):
            raise Unsupported("except clause")
        if self.pure_only:
            raise NeedsMonad()
        if self.pending:
            raise Unsupported("internal: pending effects before try")
        first, rest = s.body[0], list(s.body[1:])
        if isinstance(first, ast.Return):
            if k is not None:
                raise Unsupported("return inside a loop")
            if rest or first.value is None:
                raise Unsupported("try body: return form")
            pend, (t, ty) = self.isolated(lambda: self.expr(first.value, env))
            self.rets.append(norm(ty))
            its = "".join("\x01" + p for p in self.iter_params)
            ok_tail = "%s\x03RET%d\x01%s%s\x03" % (pad1, len(self.rets) - 1, t, its)
        else:
            pend, r = self.isolated(lambda: self.simple(first, env))
            if r is None:
                raise Unsupported("first statement of a try body")
            lines, env_ok = r
            body_rest = "".join(pad1 + l + "\n" for l in lines)
            saved = self.pure_only
            self.pure_only = True
            try:
                for st in rest:
                    rr = self.simple(st, env_ok)
                    if rr is None or self.pending:
                        raise Unsupported("try body: statement %s after the first" % type(st).__name__)
                    body_rest += "".join(pad1 + l + "\n" for l in rr[0])
                    env_ok = rr[1]
            except NeedsMonad:
                raise Unsupported("only the first statement of a try body may raise")
            finally:
                self.pure_only = saved
            ok_tail = body_rest + self.block(tail, env_ok, indent + 1, k)
        binds = [p for p in pend if p[0] == "bind"]
        if len(binds) != 1 or pend[0][0] != "bind":
            raise Unsupported("try body whose first statement has %d raising operations" % len(binds))
        lets = "".join("%slet %s : %s := %s\n" % (pad1, p[1], render(p[3]), p[2]) for p in pend[1:])
        handler = self.block(list(h.body) + tail, dict(env), indent + 1, k)
        return ("%smatch (%s : Py %s) with\n%s| Except.ok %s =>\n%s%s\n%s| Except.error PyExc.%s =>\n%s\n"
                "%s| Except.error py_e => Except.error py_e") % (
            pad, binds[0][2], render(binds[0][3]), pad, binds[0][1], lets, ok_tail, pad, h.type.id, handler, pad)

    # ---- whole function
    def translate(self, fn):
        spec = self.spec
        a = fn.args
        names = [x.arg for x in a.args]
        if spec.get("cls"):
            if not names or names[0] != "self":
                raise Unsupported("method without self")
            names = names[1:]
        if a.kwarg or a.kwonlyargs or a.posonlyargs:
            raise Unsupported("signature")
        if a.defaults and not (spec.get("defaults") and all(isinstance(d, ast.Constant) or (isinstance(d, ast.UnaryOp) and isinstance(d.operand, ast.Constant))
                                                          for d in a.defaults)):
            # with `defaults` in SPECS the Lean function simply takes every argument explicitly
            raise Unsupported("signature")
        if names != [p for p, _ in spec.get("params", [])]:
            raise Unsupported("parameters %s (expected %s)" % (names, [p for p, _ in spec.get("params", [])]))
        va = spec.get("vararg")
        if (a.vararg.arg if a.vararg else None) != (va[0] if va else None):
            raise Unsupported("vararg")
        for d in fn.decorator_list:
            if ast.unparse(d) not in ALLOWED_DECORATORS:
                raise Unsupported("decorator %s" % ast.unparse(d))
        for x in ast.walk(fn):
            if isinstance(x, (ast.Global, ast.Nonlocal, ast.Lambda, ast.FunctionDef, ast.AsyncFunctionDef,
                              ast.ClassDef, ast.Yield, ast.YieldFrom, ast.Await, ast.SetComp,
                              ast.DictComp, ast.GeneratorExp, ast.NamedExpr, ast.Delete, ast.With,
                              ast.Import, ast.ImportFrom)) and x is not fn:
                raise Unsupported("construct %s" % type(x).__name__)
        env = {}
        # library functions that are called but not translated: parameters of the Lean function.
        # The name must denote that function: imported from its module and never rebound here.
        for cname, cmod, cty in spec.get("callees", []):
            same = cmod == self.mod.modname and cname in self.mod.defs and cname not in self.mod.imported
            if (not same and (self.mod.imported.get(cname) != (cmod, cname) or cname in self.mod.defs)) \
                    or cname in self.mod.assigned or cname in assigned_names(fn.body) or cname in names:
                raise Unsupported("callee %s is not the function of %s" % (cname, cmod))
            env[cname] = cty
        for p, ty in spec.get("params", []):
            env[p] = ty
        if va:
            env[va[0]] = va[1]
        for at, ty in spec.get("self_attrs", []):
            env["self_" + at] = ty
        # writes to self.attr are outside the subset
        for x in ast.walk(fn):
            if isinstance(x, ast.Attribute) and not isinstance(x.ctx, ast.Load):
                raise Unsupported("attribute assignment")
        local = set(assigned_names(fn.body)) | (set(env) - {c[0] for c in spec.get("callees", [])})
        for g, _ in spec.get("globals", []):
            if g in local:
                raise Unsupported("global %s is rebound / mutated" % g)
        for tname in CONSTANT_TABLES:
            if tname in local:
                raise Unsupported("table %s is rebound / mutated" % tname)
        allnames = {x.id for x in ast.walk(fn) if isinstance(x, ast.Name)} | {x.arg for x in ast.walk(fn) if isinstance(x, ast.arg)}
        # identifiers go into the Lean text unchanged: they must not be Lean keywords, must not
        # shadow anything the translator emits, and must not look like the names it invents
        import re as _re
        for n in sorted(allnames & (set(env) | local)):   # variables, not called builtins
            if n in LEAN_RESERVED or _re.match(r"^(st|x)_\d+$", n) or not _re.match(r"^[A-Za-z_][A-Za-z0-9_]*$", n):
                raise Unsupported("identifier %s cannot be used in the Lean text" % n)
        while any(n.startswith(self.prefix + "_") for n in allnames):
            self.prefix += "t"
        for bad in ("py_fuel", "py_next", "py_e", "py_broke"):
            if bad in allnames:
                raise Unsupported("reserved name %s" % bad)
        self.frozen = frozenset()
        self.nullable_lists = set()

        def has_none(node):
            return isinstance(node, ast.List) and any(
                isinstance(y, ast.Constant) and y.value is None for y in node.elts)
        for x in ast.walk(fn):
            if isinstance(x, ast.Call) and isinstance(x.func, ast.Attribute) and x.func.attr == "append" \
                    and isinstance(x.func.value, ast.Name) and len(x.args) == 1 \
                    and isinstance(x.args[0], ast.Constant) and x.args[0].value is None:
                self.nullable_lists.add(x.func.value.id)
            if isinstance(x, ast.AugAssign) and isinstance(x.target, ast.Name) and has_none(x.value):
                self.nullable_lists.add(x.target.id)
            if isinstance(x, ast.Assign) and len(x.targets) == 1 and isinstance(x.targets[0], ast.Name) \
                    and isinstance(x.value, ast.BinOp) and (has_none(x.value.left) or has_none(x.value.right)):
                self.nullable_lists.add(x.targets[0].id)
        body = self.block(fn.body, env, 1, None)
        # return type: all equal, or Int/None -> Option Int
        rts = self.rets
        if not rts:
            raise Unsupported("no return")
        if all(unify(rts[0], t) for t in rts[1:]) and norm(rts[0]) != NONE:
            rt = norm(rts[0])
            conv = lambda t, ty: t
        elif all(norm(t) in (INT, NAT, NONE, Opt(INT)) for t in rts):
            rt = Opt(INT)
            conv = self.to_opt_int
        elif spec.get("sum_return") and all(norm(t) != NONE for t in rts):
            # returns of different types: a Lean sum of the distinct types, in the order of their
            # first `return`
            kinds = []
            for t in rts:
                if norm(t) not in kinds:
                    kinds.append(norm(t))
            rt = kinds[-1]
            for t in reversed(kinds[:-1]):
                rt = Uni(t, rt)

            def conv(text, ty, kinds=kinds):
                j = kinds.index(norm(ty))
                inner = "(Sum.inl %s)" % text if j < len(kinds) - 1 else text
                for _ in range(j):
                    inner = "(Sum.inr %s)" % inner
                return inner
        else:
            raise Unsupported("returns of different types")
        if rt == NAT:
            rt = INT
            conv = self.as_int
        out = []
        for piece in body.split("\x03"):
            if piece.startswith("RET"):
                parts = piece.split("\x01")
                i = int(parts[0][3:])
                val = conv(parts[1], rts[i])
                if parts[2:]:
                    val = "(%s, %s)" % (val, ", ".join(parts[2:]))
                out.append("Except.ok %s" % val)
            else:
                out.append(piece)
        body = "".join(out)
        params = []
        for g, ty in self.globals_used:
            params.append("(%s : %s)" % (g, render(ty)))
        for at, ty in spec.get("self_attrs", []):
            params.append("(self_%s : %s)" % (at, render(ty)))
        for cname, cmod, cty in spec.get("callees", []):
            params.append("(%s : %s)" % (cname, render(cty)))
        for p, ty in spec.get("params", []):
            params.append("(%s : %s)" % (p, render(ty)))
        if va:
            params.append("(%s : %s)" % (va[0], render(va[1])))
        full_rt = rt if not self.iter_params else Tup(rt, *[ITER] * len(self.iter_params))
        pre = ""
        if self.iter_params:
            pre = "{ι : Type} (py_next : ι → Py (%s × ι)) " % render(ITER_ITEM)
        sig = "%s%s : Py %s" % (pre, " ".join(params), render(full_rt))
        text = "".join(a + "\n" for a in self.aux) + "def %s %s := do\n%s\n" % (self.fname, sig, body)
        text = self.resolve_markers(text)   # element types of list literals
        return text, dict(globals=list(self.globals_used), ret=rt, iter_params=list(self.iter_params),
                          sig=self.resolve_markers(sig))

    def resolve_markers(self, text):
        import re as _re

        def sub(m):
            tv = TVAR_BY_ID.get(int(m.group(1)))
            r = render(tv) if tv is not None else m.group(0)
            if "\x02" in r:
                raise Unsupported("element type of a list literal is never determined")
            return r
        return _re.sub("\x02T(\\d+)\x02", sub, text)


class TrGenerator:
    """a generator function whose expressions cannot raise: the body runs in the monad
    `Except (PyExc × List item)` with the items yielded so far in the variable `py_out`
    (`yield e` appends, `raise E` is `.error (E, py_out)`), and `PyRt.genRun` turns the outcome
    into the translator's generator protocol (items yielded, exception that ends the iteration).
    Statements: assignments of names, `yield e`, `raise E(..)`, `if` (only rebinding existing
    names), `while … v < bound …` where `bound` is not changed by the body: an auxiliary
    definition by structural recursion on a fuel argument, called with `(bound - v).toNat + 1`;
    running out of fuel is `.error (.NonTermination, py_out)` (that the fuel suffices is PROVED
    in Proofs/GenEq8.lean)."""

    def __init__(self, spec, mod, registry):
        self.spec = spec
        self.x = TrX(spec, mod, registry)
        self.x.pure_only = True
        self.aux = []
        self.nwhile = 0
        self.nst = 0
        self.item = spec["generator"]
        self.fname = lean_name(spec)

    def e(self, f):
        try:
            pend, r = self.x.isolated(f)
        except NeedsMonad:
            raise Unsupported("an operation that can raise inside a generator")
        if pend:
            raise Unsupported("an operation that can raise inside a generator")
        return r

    def mty(self):
        return "Except (PyExc × %s)" % render(Lst(self.item))

    def tuple_of(self, names):
        return "()" if not names else names[0] if len(names) == 1 else "(" + ", ".join(names) + ")"

    def type_of(self, names, env):
        return "Unit" if not names else render(env[names[0]]) if len(names) == 1 \
            else render(Tup(*[env[n] for n in names]))

    def unpack(self, st, names, env, pad):
        if len(names) <= 1:
            return ""
        return "".join("%slet %s : %s := %s\n" % (pad, n, render(env[n]), proj(st, i, len(names)))
                       for i, n in enumerate(names))

    def state_names(self, stmts, env):
        names = [n for n in assigned_names(stmts) if n in env]
        if any(isinstance(y, (ast.Yield, ast.Raise)) for st in stmts for y in ast.walk(st)):
            names.append("py_out")
        names = sorted(set(names), key=lambda n: (type_rank(env[n]), n))
        for n in assigned_names(stmts):
            if n not in env:
                raise Unsupported("variable %s is first assigned inside a branch" % n)
        return names

    def block(self, stmts, env, indent, k):
        """k(env) -> the last line of the block (a term of the monad)"""
        pad = "  " * indent
        out = ""
        for i, st in enumerate(stmts):
            tail = stmts[i + 1:]
            if isinstance(st, ast.Expr) and isinstance(st.value, ast.Constant) and isinstance(st.value.value, str):
                continue
            if isinstance(st, ast.Pass):
                continue
            if isinstance(st, ast.Expr) and isinstance(st.value, ast.Yield) and st.value.value is not None:
                t, ty = self.e(lambda: self.x.expr(st.value.value, env))
                item = self.x.coerce(t, ty, self.item)
                out += "%slet py_out : %s := (py_out ++ [%s])\n" % (pad, render(Lst(self.item)), item)
                continue
            if isinstance(st, ast.Raise):
                self.x.pure_only = False
                try:
                    self.x.raise_(st)   # checks the form
                finally:
                    self.x.pure_only = True
                exc = st.exc.func.id if isinstance(st.exc, ast.Call) else st.exc.id
                return out + "%sExcept.error (PyExc.%s, py_out)" % (pad, exc)
            if isinstance(st, (ast.Assign, ast.AugAssign)):
                tg = st.targets[0] if isinstance(st, ast.Assign) and len(st.targets) == 1 else \
                    st.target if isinstance(st, ast.AugAssign) else None
                if not isinstance(tg, ast.Name):
                    raise Unsupported("assignment target in a generator")
                if isinstance(st, ast.Assign):
                    t, ty = self.e(lambda: self.x.expr(st.value, env))
                else:
                    t, ty = self.e(lambda: self.x.binop(st.op, ast.Name(id=tg.id, ctx=ast.Load()), st.value, env))
                ty = norm(ty)
                if ty == NONE or (isinstance(ty, tuple) and ty[0] != "Tuple") or tg.id in self.frozen:
                    raise Unsupported("assignment of %s in a generator" % render(ty))
                if tg.id in env and not unify(norm(env[tg.id]), ty):
                    raise Unsupported("variable %s changes its type" % tg.id)
                env = dict(env)
                env[tg.id] = ty
                out += "%slet %s : %s := %s\n" % (pad, tg.id, render(ty), t)
                continue
            if isinstance(st, ast.If):
                c, tc = self.e(lambda: self.x.expr(st.test, env))
                c = self.x.truth(c, tc)
                names = self.state_names(st.body + st.orelse, env)
                y = lambda e2: "%sExcept.ok %s" % ("  " * (indent + 2), self.tuple_of(names))
                a = self.block(st.body, env, indent + 2, y)
                b = self.block(st.orelse, env, indent + 2, y)
                self.nst += 1
                sname = "_" if not names else names[0] if len(names) == 1 else "py_st_%d" % self.nst
                out += "%slet %s : %s ← (if %s then do\n%s\n%s  else do\n%s)\n" % (
                    pad, sname, self.type_of(names, env), c, a, pad, b)
                out += self.unpack(sname, names, env, pad)
                continue
            if isinstance(st, ast.While):
                out += self.while_(st, tail, env, indent)
                continue
            raise Unsupported("statement %s in a generator" % type(st).__name__)
        return out + k(env)

    def while_(self, st, tail, env, indent):
        pad = "  " * indent
        if st.orelse:
            raise Unsupported("loop else")
        for y in ast.walk(st):
            if isinstance(y, (ast.Break, ast.Continue, ast.Return)) or (y is not st and isinstance(y, (ast.While, ast.For))):
                raise Unsupported("%s inside a generator loop" % type(y).__name__.lower())
        assigned = assigned_names(st.body)
        names = [n for n in assigned if n in env] + ["py_out"]
        names = sorted(set(names), key=lambda n: (type_rank(env[n]), n))
        fresh = [n for n in assigned if n not in env]
        if set(fresh) & used_names(tail):
            raise Unsupported("a variable first assigned inside the loop is used after it")
        # the measure: a comparison `v < bound` of the condition, v assigned in the body, bound not
        measure = None
        if isinstance(st.test, ast.Compare):
            operands = [st.test.left] + list(st.test.comparators)
            for (l, op, r) in zip(operands, st.test.ops, operands[1:]):
                if isinstance(op, ast.Lt) and isinstance(l, ast.Name) and l.id in names \
                        and not (used_names([r]) & set(assigned)):
                    measure = (l, r)
        if measure is None:
            raise Unsupported("while loop without a measure of the form v < bound")
        v, tv = self.e(lambda: self.x.expr(measure[0], env))
        b, tb = self.e(lambda: self.x.expr(measure[1], env))
        fuel = "(Int.toNat (%s - %s) + 1)" % (self.x.as_int(b, tb), self.x.as_int(v, tv))
        self.nwhile += 1
        aname = "%s_while%d" % (self.fname, self.nwhile)
        free = [n for n in env if n not in names and n in used_names([st])
                and not (isinstance(norm(env[n]), tuple) and norm(env[n])[0] == "Fn")]
        saved_frozen = self.frozen
        self.frozen = self.frozen | set(free)
        c, tc = self.e(lambda: self.x.expr(st.test, env))
        c = self.x.truth(c, tc)
        sty = self.type_of(names, env)
        tup = self.tuple_of(names)

        def again(e2):
            for n in names:
                if not unify(norm(env[n]), norm(e2[n])):
                    raise Unsupported("loop variable %s changes its type" % n)
            return "      %s %s py_fuel %s" % (aname, " ".join(free), tup)
        body = self.block(st.body, env, 3, again)
        self.frozen = saved_frozen
        params = " ".join("(%s : %s)" % (n, render(env[n])) for n in free)
        out_of = proj("py_st", names.index("py_out"), len(names))
        text = "/-- the `while` loop of `%s` (line %d): structural recursion on a fuel argument -/\n" % (
            self.spec["name"], st.lineno)
        text += "def %s %s : Nat → %s → %s %s\n" % (aname, params, sty, self.mty(), sty)
        text += "  | 0, py_st => Except.error (PyExc.NonTermination, %s)\n" % out_of
        text += "  | py_fuel + 1, py_st => do\n"
        text += self.unpack("py_st", names, env, "    ") if len(names) > 1 else \
            "    let %s : %s := py_st\n" % (names[0], sty)
        text += "    if %s then\n%s\n    else\n      Except.ok %s\n" % (c, body, tup)
        self.aux.append(text)
        self.aux_sigs.append((aname, "%s : Nat → %s → %s %s" % (params, sty, self.mty(), sty), " ".join(free)))
        sname = names[0] if len(names) == 1 else "py_st_w%d" % self.nwhile
        out = "%slet %s : %s ← %s %s %s %s\n" % (pad, sname, sty, aname, " ".join(free), fuel, tup)
        out += self.unpack(sname, names, env, pad)
        return out

    def translate(self, fn):
        spec = self.spec
        a = fn.args
        names = [x.arg for x in a.args]
        if a.kwarg or a.kwonlyargs or a.posonlyargs or a.vararg or a.defaults or fn.decorator_list:
            raise Unsupported("signature")
        if names != [p for p, _ in spec["params"]]:
            raise Unsupported("parameters %s" % names)
        import re as _re
        allnames = {x.id for x in ast.walk(fn) if isinstance(x, ast.Name)} | set(names)
        for n in sorted(allnames):
            if (n in LEAN_RESERVED and n not in ("len", "min", "max")) or n.startswith("py_") \
                    or _re.match(r"^(st|x|t)_\d+$", n) or not _re.match(r"^[A-Za-z_][A-Za-z0-9_]*$", n):
                if n not in EXC_NAMES:
                    raise Unsupported("identifier %s cannot be used in the Lean text" % n)
        for x in ast.walk(fn):
            if isinstance(x, (ast.Global, ast.Nonlocal, ast.Lambda, ast.AsyncFunctionDef, ast.ClassDef,
                              ast.YieldFrom, ast.Await, ast.SetComp, ast.DictComp, ast.GeneratorExp,
                              ast.ListComp, ast.NamedExpr, ast.Delete, ast.With, ast.Import, ast.ImportFrom,
                              ast.Try, ast.For, ast.Return)) or (isinstance(x, ast.FunctionDef) and x is not fn):
                raise Unsupported("construct %s in a generator" % type(x).__name__)
            if isinstance(x, ast.Yield) and x.value is None:
                raise Unsupported("bare yield")
        if not any(isinstance(x, ast.Yield) for x in ast.walk(fn)):
            raise Unsupported("not a generator")
        env = {p: ty for p, ty in spec["params"]}
        self.frozen = frozenset(env)
        self.aux_sigs = []
        env["py_out"] = Lst(self.item)
        body = self.block(fn.body, env, 2, lambda e2: "    Except.ok py_out")
        params = " ".join("(%s : %s)" % (p, render(ty)) for p, ty in spec["params"])
        sig = "%s : %s" % (params, render(Gen(self.item)))
        text = "".join(t + "\n" for t in self.aux)
        text += "def %s %s :=\n  PyRt.genRun (do\n    let py_out : %s := []\n%s)\n" % (
            self.fname, sig, render(Lst(self.item)), body)
        self.x.aux = self.aux
        return text, dict(globals=[], ret=Gen(self.item), iter_params=[], sig=sig, aux=self.aux_sigs)


TVAR_BY_ID = {}
_old_tvar_init = TVar.__init__


def _tvar_init(self):
    _old_tvar_init(self)
    TVAR_BY_ID[self.id] = self


TVar.__init__ = _tvar_init


def generate_pure(repo):
    """-> ({file name: lean text}, {python name: info})"""
    mods = {}
    info = {}
    registry = {}
    chunks = {g: [] for g in GROUPS}
    failed = {g: [] for g in GROUPS}
    for spec in SPECS:
        name = spec["name"]
        key = (spec.get("cls") + "." + name) if spec.get("cls") else name
        path = os.path.join(repo, spec["file"])
        try:
            if spec["file"] not in mods:
                mods[spec["file"]] = ModuleInfo(path, MODULE_OF_FILE[spec["file"]])
            mod = mods[spec["file"]]
            if spec.get("cls"):
                fn = mod.classes.get(spec["cls"], {}).get(name)
            else:
                fn = mod.defs.get(name)
            if fn is None:
                raise Unsupported("function not found")
            tr = TrGenerator(spec, mod, registry) if spec.get("generator") else TrX(spec, mod, registry)
            text, sig = tr.translate(fn)
            registry[name] = (spec, sig)
            doc = "/-- `%s` of %s (line %d), translated from the AST.%s -/\n" % (
                key, spec["file"], fn.lineno,
                " Decorators ignored: %s." % ", ".join(ast.unparse(d) for d in fn.decorator_list)
                if fn.decorator_list else "")
            text = text.replace("def %s " % lean_name(spec), doc + "def %s " % lean_name(spec), 1) \
                if (tr.aux or spec.get("generator")) and not text.startswith("def %s " % lean_name(spec)) else doc + text
            chunks[spec["group"]].append(text)
            info[key] = {"ok": True, "lean": "SV.Gen." + lean_name(spec), "file": spec["file"],
                         "module": "SelfiesVerif.Generated." + spec["group"], "signature": sig["sig"],
                         "ast": ast.dump(fn)}
        except Exception as e:  # Unsupported, unreadable source, or a defect of the translator itself
            if not isinstance(e, (Unsupported, OSError, SyntaxError)):
                e = Unsupported("translator internal error: %r" % (e,))
            fb_sig, fb_ret, fb_iter = FALLBACK_SIGS[lean_name(spec)]
            registry[name] = (spec, dict(globals=list(spec.get("globals", [])) if lean_name(spec) != "Atom_bonding_capacity"
                                         else [("_current_constraints", Dct(STR, NAT))],
                                         ret=fb_ret, iter_params=fb_iter, sig=fb_sig))
            args = " ".join(a for a in FALLBACK_ARGS[lean_name(spec)])
            for aux, aux_sig, aux_args in FALLBACK_AUX.get(lean_name(spec), []):
                chunks[spec["group"]].append("/- auxiliary definition of the fallback -/\ndef %s %s :=\n  SV.Gen.Fallback.%s %s\n" % (
                    aux, aux_sig, aux, aux_args))
            chunks[spec["group"]].append("/- translator fallback: %s -/\ndef %s %s :=\n  SV.Gen.Fallback.%s %s\n" % (
                e, lean_name(spec), fb_sig, lean_name(spec), args))
            failed[spec["group"]].append(key)
            info[key] = {"ok": False, "reason": str(e), "lean": "SV.Gen." + lean_name(spec),
                         "file": spec["file"], "module": "SelfiesVerif.Generated." + spec["group"]}
    files = {}
    for g, cfg in GROUPS.items():
        srcs = sorted({s["file"] for s in SPECS if s["group"] == g})
        L = ["/- GENERATED by harness/py2lean.py from %s. Do not edit. -/" % ", ".join(srcs),
             "import SelfiesVerif.Py", "import SelfiesVerif.Generated.PyRt", "import SelfiesVerif.Generated.Fallback"]
        L += ["import %s" % i for i in cfg["imports"]]
        L += ["set_option linter.unusedVariables false", "namespace SV.Gen", "open SV", ""]
        L += chunks[g]
        L.append("def %s : List String := [%s]" % (cfg["fallbacks"], ", ".join('"%s"' % n for n in failed[g])))
        L.append("end SV.Gen")
        files[g + ".lean"] = "\n".join(L) + "\n"
    return files, info


# signatures of the hand copies in Generated/Fallback.lean
FALLBACK_SIGS = {
    "get_index_from_selfies": ("(symbols : (List (Option Str))) : Py Int", INT, []),
    "get_selfies_from_index": ("(index : Int) : Py (List Str)", Lst(STR), []),
    "get_bonding_capacity": ("(_current_constraints : (List (Str × Nat))) (element : Str) (charge : Int) : Py Int", INT, []),
    "Atom_bonding_capacity": ("(_current_constraints : (List (Str × Nat))) (self_element : Str) (self_charge : Int) "
                              "(self_h_count : (Option Int)) : Py Int", INT, []),
    "read_index_from_selfies": ("{ι : Type} (py_next : ι → Py ((Nat × Str) × ι)) (symbol_iter : ι) (n_symbols : Int) "
                                ": Py ((Int × Int) × ι)", Tup(INT, INT), ["symbol_iter"]),
    "encoding_to_selfies": ("(encoding : ((List Int) ⊕ (List (List Int)))) (vocab_itos : (List (Int × Str))) "
                            "(enc_type : Str) : Py Str", STR, []),
    "selfies_to_encoding": ("(len_selfies : (Str → Nat)) (split_selfies : (Str → ((List Str) × (Option PyExc)))) (selfies : Str) (vocab_stoi : (List (Str × Int))) (pad_to_len : Int) (enc_type : Str) : Py ((List Int) ⊕ ((List (List Int)) ⊕ ((List Int) × (List (List Int)))))", Uni(Lst(INT), Uni(Lst(Lst(INT)), Tup(Lst(INT), Lst(Lst(INT))))), []),
}
FALLBACK_SIGS["len_selfies"] = ("(selfies : Str) : Py Int", INT, [])
FALLBACK_SIGS["split_selfies"] = ("(selfies : Str) : ((List Str) × (Option PyExc))", Gen(STR), [])
FALLBACK_SIGS["get_alphabet_from_selfies"] = (
    "(split_selfies : (Str → ((List Str) × (Option PyExc)))) (selfies_iter : (List Str)) : Py (List Str)",
    Set(STR), [])
# loop definitions that the proofs refer to by name (kept available under a fallback)
FALLBACK_AUX = {
    "get_selfies_from_index": [("get_selfies_from_index_while1",
                                "(base : Nat) : Nat → (Int × (List Str)) → Py (Int × (List Str))", "base")],
}
FALLBACK_ARGS = {
    "get_index_from_selfies": ["symbols"],
    "get_selfies_from_index": ["index"],
    "get_bonding_capacity": ["_current_constraints", "element", "charge"],
    "Atom_bonding_capacity": ["_current_constraints", "self_element", "self_charge", "self_h_count"],
    "read_index_from_selfies": ["py_next", "symbol_iter", "n_symbols"],
    "encoding_to_selfies": ["encoding", "vocab_itos", "enc_type"],
    "selfies_to_encoding": ["len_selfies", "split_selfies", "selfies", "vocab_stoi", "pad_to_len", "enc_type"],
}
FALLBACK_ARGS["len_selfies"] = ["selfies"]
FALLBACK_ARGS["get_alphabet_from_selfies"] = ["split_selfies", "selfies_iter"]
FALLBACK_ARGS["split_selfies"] = ["selfies"]
FALLBACK_AUX["split_selfies"] = [("split_selfies_while1",
                                  "(selfies : Str) : Nat → (Int × (List Str)) → Except (PyExc × (List Str)) (Int × (List Str))",
                                  "selfies")]
