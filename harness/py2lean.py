"""Translator, part 2 (tie a): Python AST -> Lean 4 for the three grammar state functions
`next_atom_state`, `next_branch_state`, `next_ring_state` of selfies/grammar_rules.py.

Subset: parameters are ints; statements are assignment, `if/elif/else` (bodies in the subset),
`assert`, `return` of a tuple or a single expression; expressions are names, int constants,
`None`, `+ - *`, unary minus, `min`/`max` calls, comparisons (chained), `and`/`or`/`not`,
conditional expressions.  Everything is translated over `Int`; a value that may be `None`
becomes `Option Int`.  `assert` becomes an explicit `AssertionError` result.

If a function leaves the subset, `generate` reports it (info[name] = {"ok": False, ...}) and
emits a fallback definition that simply re-exports the hand model, so that the build does not
break; the harness then ties that function by an exhaustive grid correspondence instead.
"""
import ast

FUNCS = ["next_atom_state", "next_branch_state", "next_ring_state"]
FALLBACK = {
    "next_atom_state": ("(bond_order bond_cap state : Int) : Py (Int × Option Int)",
                        "SV.Gen.Fallback.next_atom_state bond_order bond_cap state"),
    "next_branch_state": ("(branch_type state : Int) : Py (Int × Int)",
                          "SV.Gen.Fallback.next_branch_state branch_type state"),
    "next_ring_state": ("(ring_type state : Int) : Py (Int × Option Int)",
                        "SV.Gen.Fallback.next_ring_state ring_type state"),
}


class Unsupported(Exception):
    pass


INT, OPT, BOOL, NONE = "Int", "Option Int", "Bool", "None"


class Tr:
    def __init__(self, params):
        self.env = {p: INT for p in params}

    # ---- expressions: return (lean_text, type)
    def expr(self, e, env):
        if isinstance(e, ast.Constant):
            if e.value is None:
                return "none", NONE
            if isinstance(e.value, bool):
                return ("true" if e.value else "false"), BOOL
            if isinstance(e.value, int):
                return ("(%d : Int)" % e.value if e.value >= 0 else "(-%d : Int)" % -e.value), INT
            raise Unsupported("constant %r" % (e.value,))
        if isinstance(e, ast.Name):
            if e.id not in env:
                raise Unsupported("unknown name %s" % e.id)
            return e.id, env[e.id]
        if isinstance(e, ast.UnaryOp):
            if isinstance(e.op, ast.USub):
                t, ty = self.expr(e.operand, env)
                self.need(ty, INT)
                return "(-%s)" % t, INT
            if isinstance(e.op, ast.Not):
                t, ty = self.expr(e.operand, env)
                self.need(ty, BOOL)
                return "(!%s)" % t, BOOL
            raise Unsupported("unary op")
        if isinstance(e, ast.BinOp):
            ops = {ast.Add: "+", ast.Sub: "-", ast.Mult: "*"}
            if type(e.op) not in ops:
                raise Unsupported("binary op %s" % type(e.op).__name__)
            a, ta = self.expr(e.left, env)
            b, tb = self.expr(e.right, env)
            self.need(ta, INT)
            self.need(tb, INT)
            return "(%s %s %s)" % (a, ops[type(e.op)], b), INT
        if isinstance(e, ast.Call):
            if isinstance(e.func, ast.Name) and e.func.id in ("min", "max") and not e.keywords \
                    and len(e.args) >= 2:
                parts = []
                for a in e.args:
                    t, ty = self.expr(a, env)
                    self.need(ty, INT)
                    parts.append(t)
                acc = parts[0]
                for p in parts[1:]:
                    acc = "(%s %s %s)" % (e.func.id, acc, p)
                return acc, INT
            raise Unsupported("call")
        if isinstance(e, ast.Compare):
            ops = {ast.Eq: "==", ast.NotEq: "!=", ast.Lt: "<", ast.LtE: "≤", ast.Gt: ">", ast.GtE: "≥"}
            left = e.left
            parts = []
            for op, right in zip(e.ops, e.comparators):
                if isinstance(op, (ast.Is, ast.IsNot)):
                    raise Unsupported("is")
                if type(op) not in ops:
                    raise Unsupported("compare op")
                a, ta = self.expr(left, env)
                b, tb = self.expr(right, env)
                self.need(ta, INT)
                self.need(tb, INT)
                parts.append("(decide (%s %s %s))" % (a, {"==": "=", "!=": "≠"}.get(ops[type(op)], ops[type(op)]), b))
                left = right
            return "(" + " && ".join(parts) + ")", BOOL
        if isinstance(e, ast.BoolOp):
            op = "&&" if isinstance(e.op, ast.And) else "||"
            parts = []
            for v in e.values:
                t, ty = self.expr(v, env)
                self.need(ty, BOOL)
                parts.append(t)
            return "(" + (" %s " % op).join(parts) + ")", BOOL
        if isinstance(e, ast.IfExp):
            c, tc = self.expr(e.test, env)
            self.need(tc, BOOL)
            a, ta = self.expr(e.body, env)
            b, tb = self.expr(e.orelse, env)
            if ta == tb and ta in (INT, BOOL, OPT):
                return "(if %s then %s else %s)" % (c, a, b), ta
            # Option join
            a2 = self.to_opt(a, ta)
            b2 = self.to_opt(b, tb)
            return "(if %s then %s else %s)" % (c, a2, b2), OPT
        raise Unsupported("expression %s" % type(e).__name__)

    def to_opt(self, t, ty):
        if ty == NONE:
            return "(none : Option Int)"
        if ty == INT:
            return "(some %s)" % t
        if ty == OPT:
            return t
        raise Unsupported("cannot make Option of %s" % ty)

    def need(self, ty, want):
        if ty != want:
            raise Unsupported("type %s where %s expected" % (ty, want))

    # ---- statements in continuation style: returns (lean_text, return_types)
    def block(self, stmts, env, indent, rest=()):
        stmts = list(stmts) + list(rest)
        pad = "  " * indent
        if not stmts:
            raise Unsupported("fell off the end without return")
        s, tail = stmts[0], stmts[1:]
        if isinstance(s, ast.Expr) and isinstance(s.value, ast.Constant) and isinstance(s.value.value, str):
            return self.block(tail, env, indent)  # docstring
        if isinstance(s, ast.Assign):
            if len(s.targets) != 1 or not isinstance(s.targets[0], ast.Name):
                raise Unsupported("assignment target")
            t, ty = self.expr(s.value, env)
            if ty == NONE:
                t, ty = "(none : Option Int)", OPT
            env2 = dict(env)
            env2[s.targets[0].id] = ty
            body, rt = self.block(tail, env2, indent)
            return "%slet %s : %s := %s\n%s" % (pad, s.targets[0].id, ty, t, body), rt
        if isinstance(s, ast.Assert):
            c, tc = self.expr(s.test, env)
            self.need(tc, BOOL)
            body, rt = self.block(tail, env, indent + 1)
            return "%sif %s then\n%s\n%selse Except.error PyExc.AssertionError" % (pad, c, body, pad), rt
        if isinstance(s, ast.If):
            c, tc = self.expr(s.test, env)
            self.need(tc, BOOL)
            a, rta = self.block(s.body, dict(env), indent + 1, tail)
            b, rtb = self.block(s.orelse, dict(env), indent + 1, tail)
            rt = self.join_rt(rta, rtb)
            return "%sif %s then\n%s\n%selse\n%s" % (pad, c, a, pad, b), rt
        if isinstance(s, ast.Return):
            v = s.value
            elts = v.elts if isinstance(v, ast.Tuple) else [v]
            parts = [self.expr(x, env) for x in elts]
            return ("%sRET(%s)" % (pad, "\x00".join("%s\x01%s" % p for p in parts))), [p[1] for p in parts]
        raise Unsupported("statement %s" % type(s).__name__)

    def join_rt(self, a, b):
        if len(a) != len(b):
            raise Unsupported("returns of different arity")
        out = []
        for x, y in zip(a, b):
            if x == y:
                out.append(x)
            elif {x, y} <= {INT, OPT, NONE}:
                out.append(OPT)
            else:
                raise Unsupported("returns of different types")
        return out


def translate_function(fn):
    params = [a.arg for a in fn.args.args]
    if fn.args.vararg or fn.args.kwarg or fn.args.kwonlyargs or fn.args.defaults:
        raise Unsupported("signature")
    tr = Tr(params)
    body, rt = tr.block(fn.body, dict(tr.env), 1)
    rt = [OPT if t == NONE else t for t in rt]
    # now resolve RET(...) markers with the joined return types
    out_lines = []
    for line in body.split("\n"):
        if "RET(" in line:
            pad, payload = line.split("RET(", 1)
            payload = payload[:-1]
            parts = [p.split("\x01") for p in payload.split("\x00")]
            vals = []
            for (t, ty), want in zip(parts, rt):
                if want == OPT:
                    vals.append(tr.to_opt(t, ty))
                else:
                    vals.append(t)
            out_lines.append("%sExcept.ok (%s)" % (pad, ", ".join(vals)))
        else:
            out_lines.append(line)
    sig = "(%s : Int) : Py (%s)" % (" ".join(params), " × ".join(rt))
    return sig, "\n".join(out_lines), params, rt


def generate(path):
    with open(path, encoding="utf-8") as f:
        tree = ast.parse(f.read())
    fns = {n.name: n for n in tree.body if isinstance(n, ast.FunctionDef)}
    L = ["/- GENERATED by harness/py2lean.py from selfies/grammar_rules.py. Do not edit. -/",
         "import SelfiesVerif.Py", "import SelfiesVerif.Generated.Fallback",
         "namespace SV.Gen", "open SV", ""]
    info = {}
    for name in FUNCS:
        try:
            if name not in fns:
                raise Unsupported("function not found")
            sig, body, params, rt = translate_function(fns[name])
            L.append("def %s %s :=\n%s\n" % (name, sig, body))
            info[name] = {"ok": True, "params": params, "returns": rt,
                          "ast": ast.dump(fns[name])}
        except Unsupported as e:
            sig, body = FALLBACK[name]
            L.append("/- translator fallback: %s -/" % e)
            L.append("def %s %s :=\n  %s\n" % (name, sig, body))
            info[name] = {"ok": False, "reason": str(e)}
    L.append("def translatorFallbacks : List String := [%s]" % ", ".join(
        '"%s"' % n for n in FUNCS if not info[n]["ok"]))
    L.append("end SV.Gen")
    return "\n".join(L) + "\n", info
