"""Talk to the compiled Lean model (lean/.lake/build/bin/selfies_model) over its line protocol."""
import os
import subprocess

HERE = os.path.dirname(os.path.abspath(__file__))
VERIF = os.path.dirname(HERE)
EXE = os.path.join(VERIF, "lean", ".lake", "build", "bin", "selfies_model")


def enc(s):
    """str -> wire form (code points in hex)"""
    return "x" + ",".join("%x" % ord(c) for c in s)


def dec(w):
    assert w.startswith("x"), w
    body = w[1:]
    if not body:
        return ""
    return "".join(chr(int(h, 16)) for h in body.split(","))


def enc_dict(d):
    if not d:
        return "-"
    return ";".join("%s=%d" % (enc(k), v) for k, v in d.items())


def sendable(s):
    """strings with lone surrogates have no Lean counterpart"""
    return not any(0xD800 <= ord(c) <= 0xDFFF for c in s)


class Model:
    """batch interface: queue request lines, run them through one process, get reply lines"""

    def __init__(self, exe=EXE):
        self.exe = exe

    def run(self, lines, timeout=3600):
        data = "\n".join(lines) + "\n"
        p = subprocess.run([self.exe], input=data.encode("ascii"), stdout=subprocess.PIPE,
                           stderr=subprocess.PIPE, timeout=timeout)
        out = p.stdout.decode("ascii").split("\n")
        if out and out[-1] == "":
            out.pop()
        if p.returncode != 0 or len(out) != len(lines):
            raise RuntimeError("model driver failed: rc=%s, %d replies for %d requests, stderr=%s"
                               % (p.returncode, len(out), len(lines), p.stderr.decode()[:500]))
        return out
