#!/venv/bin/python
"""Replay a violation file written by check.py on the CURRENT /repo:

    /venv/bin/python harness/replay.py replays/Cxx-<hash>.json

Re-runs the recorded call(s) on the real implementation, re-evaluates the property predicate with the
independent oracles and prints the verdict. Exit 1 if the violation is still there (or, for a
`no-failing-input-found` file, always: it names the theorem / correspondence stream that no longer
checks), exit 0 if the recorded input now satisfies the property."""
import json
import os
import sys

HERE = os.path.dirname(os.path.abspath(__file__))
sys.path.insert(0, HERE)
os.environ.setdefault("PYTHONDONTWRITEBYTECODE", "1")


def main():
    path = sys.argv[1]
    if not os.path.isabs(path) and not os.path.exists(path):
        path = os.path.join(os.path.dirname(HERE), path)
    with open(path) as f:
        d = json.load(f)
    print("property:", d.get("property"), " kind:", d.get("kind"))
    if d.get("kind") == "no-failing-input-found":
        print("no concrete failing input was found; what no longer checks:")
        for b in d.get("broken_obligations", []):
            print("  obligation:", b[0], "->", str(b[1])[:400])
        for c in d.get("correspondence_disagreements", []):
            print("  correspondence stream %s\n     request: %s\n     model:   %s\n     impl:    %s\n     input:   %s" % (
                c["stream"], c["request"][:300], str(c["model"])[:300], str(c["implementation"])[:300], str(c["input"])[:300]))
        return 1
    import impl
    import oracles
    import props2
    sf = impl.sf
    v = d["violation"]
    print("recorded:", v.get("sig"), "-", v.get("what"))
    still = None
    try:
        if isinstance(v.get("table"), dict):
            try:
                sf.set_semantic_constraints({k: int(x) for k, x in v["table"].items()})
            except Exception as e:  # noqa
                print("  (table not settable: %s)" % type(e).__name__)
        if "check" in v:
            res = props2.eval_check(v["check"])
            print("  check", v["check"], "->", res)
            still = res is not True
        elif "selfies" in v and v.get("sig", "").startswith(("C01", "C07", "C02", "C08", "C13", "C18")):
            flags = v.get("flags", "-")
            r = impl.real_decoder(v["selfies"], compat="c" in flags, attribute=False)
            print("  decoder ->", r[:300])
            if r.startswith("ok\t"):
                from modelio import dec
                out = dec(r.split("\t")[1])
                why = oracles.check_decoder_output(out, sf.get_semantic_constraints())
                print("  output:", out[:300], "\n  predicate:", why)
                still = why is not None
            else:
                still = v["sig"].startswith(("C07", "C08")) and r != "err\tDecoderError" or v["sig"].startswith("C07")
        elif "smiles" in v:
            r, _t = impl.real_encoder(v["smiles"], strict=True)
            print("  encoder ->", r[:300])
            if r.startswith("ok\t"):
                from modelio import dec
                sel = dec(r.split("\t")[1])
                out = sf.decoder(sel)
                print("  decoder(encoder) ->", out[:300])
                try:
                    a, b = oracles.read_smiles(v["smiles"]), oracles.read_smiles(out)
                    why = oracles.same_molecule(a, b) or oracles.same_stereo(a, b)
                    print("  molecule/stereo predicate:", why)
                    s2 = sf.encoder(out)
                    print("  re-encode stable:", s2 == sel)
                    still = (why is not None) or (v["sig"].startswith("C10") and s2 != sel)
                except oracles.SmilesError as e:
                    print("  reference reader:", e)
                    still = True
            else:
                still = r not in ("err\tEncoderError",) if v["sig"].startswith("C09") else None
        else:
            print(json.dumps(v, indent=1)[:3000])
    finally:
        try:
            sf.set_semantic_constraints("default")
        except Exception:
            pass
    if still is None:
        print("verdict: recorded input printed above; no automatic predicate for this signature")
        return 1
    print("verdict:", "STILL VIOLATED" if still else "now satisfied")
    return 1 if still else 0


if __name__ == "__main__":
    sys.exit(main())
