#!/venv/bin/python
"""print every Lean module named in lean/PROPERTY_THEOREMS.json (for the setup build)"""
import json, os
T = json.load(open(os.path.join(os.path.dirname(os.path.abspath(__file__)), "..", "lean", "PROPERTY_THEOREMS.json")))
print(" ".join(sorted({m for e in T.values() for m in e.get("modules", [])})))
