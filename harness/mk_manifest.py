#!/venv/bin/python
"""(Re)generate MANIFEST.json from lean/PROPERTY_THEOREMS.json and the texts below."""
import json
import os

HERE = os.path.dirname(os.path.abspath(__file__))
VERIF = os.path.dirname(HERE)

TEXT = {
    "C01": ("Lean theorems, all by induction with no bound, for EVERY table, string and flag combination: graph level C01_valence, C01_counts_consistent, C01_simple_graph, C01_forest (derivation + ring pass); writer level C01w_writer_eq_spec (the explicit-stack writer = a structural pre-order rendering), C01w_balanced, C01w_labels_paired, C01w_every_atom_once, C01w_decoder_atom_order, C01w_labels_legal_partial (<= 99 ring bonds; the overflow is C01w_label_overflow, finding F1); C01r_reader_recovers: the library's own parser reads the written SMILES back as exactly the decoder's graph (<= 99 rings, no ring across '.'). Tie: regenerated tables/state functions (GenEq) and differential correspondence of the output SMILES (all strings <= 3/4 symbols over a cover alphabet, stay-alive and uniform streams, several tables). The external-sanitizer clause is validated with RDKit only.",
            "§7 C01"),
    "C02": ("Lean theorem C02_graph_eq_general: for every table, string and flag combination the decoder model's graph equals the graph of Spec/Derivation.lean - an independent, executable rendering of derivation.rst (count-down budget, declarative symbol classes, bond-list molecule, second-pass ring formation) - and the error classes agree (C02_reject_iff), for every result other than RecursionError; C02s_decoder_eq_spec_string / C02s_api_outcomes (Props/C02s.lean): the returned STRING is the structural rendering of the spec molecule and the API function either returns it or raises DecoderError (spec rejects, or the body exhausts the stack). 45 documented examples are kernel-checked against the spec. Tie: the real decoder is compared on every string <= 3/4 symbols over 28 symbols under 4 tables, plus sampled streams, BOTH with the model and with the independent spec through the driver.",
            "§7 C02"),
    "C03": ("Lean theorems C03_decode_encode / C03_roundtrip_graph and, at the level of strings, C03p_roundtrip_strings (every SMILES the strict encoder accepts; the parser is PROVED to establish the graph hypotheses: C03p_parser_pwf, C03p_parser_forest, C03p_kekulized_ready; remaining hypotheses: spans < 16^3, nesting depth < recursion budget, length <= 10^4300): for every parsed, kekulized graph that obeys the table, encoding then decoding yields the same atoms in the same order and the same bonded pairs with the same orders (SameMolecule), with each atom's neighbour order = ring bonds in formation order then chain bonds (C03_neighbour_order) - a theorem about graphs, i.e. about every spelling at once; staged versions C03_chain, C03_tree; C03s_roundtrip_parsed / C03s_bonds_iff: the same on the OUTPUT STRING (the library's parser reads decoder(encoder(s)) back with the same atoms and exactly the same bonds); C05e_aromatic_end_to_end for aromatic input. Tie: correspondence of parser, kekulization (recorded tape), encoder, decoder on datasets, re-spellings (incl. ring digits behind branches), random trees, long spans; the independent reader judges the real round trip.",
            "§7 C03"),
    "C04": ("Lean theorems C04_parity_spec / C04_parity_eq (the encoder's chirality flip is exactly the parity of the permutation between the written neighbour order and the decoder's order, for every graph), C04_inversions_parity (inversion count = transposition parity), C04_ring_marks / C04_chain_marks (every '/' '\\' mark is carried by the emitted symbol and read back on the right end; decide over the regenerated ring table). C04_handedness_preserved / C04_marks_preserved (Props/C04h.lean, the property in semantic form: handedness = tag xor parity of the written neighbour order, equal on the two parsed graphs; every bond found again at the position decoderOrder dictates with the same mark; C04_marks_preserved_all / C04_every_mark_found_again, Props/C04k.lean: without any guard, for aromatic input too, because kekulization provably touches only aromatic bonds). C04_end_to_end (string level): after encoder and decoder every atom's written neighbour order is the decoder order of its input row and its tag is flipped exactly when that permutation is odd.",
            "§7 C04"),
    "C05": ("Lean theorems: C05_greedy_valid/_total, C05_flip_valid, C05_bfs_path_alternating, C05_augment_sound_partial (sound whenever every augmenting path found is simple), C05_bipartite_sound and C05_bipartite_complete / C05_bipartite_decides (on bipartite graphs - all rings even - the routine returns a perfect matching exactly when one exists, for every legal tape; via a constructive Berge walk and completeness of the BFS), C05_kekulize_complete_bipartite, C05e_aromatic_end_to_end / C05e_rejects_without_kekule_structure / C05e_accepts_iff_kekule_structure_bipartite (the main clause end to end: decoder(encoder(s)) has the sigma skeleton, H and charges of s, every aromatic bond as 1 or 2, exactly one double bond at each atom that needs one and none at the others; EncoderError when no assignment exists, on bipartite systems), C05_kekulize_sound (exact result of kekulize given a perfect matching: sigma skeleton unchanged, one double bond per kept atom), C05_prune_standard_kinds (28 atom kinds, decide); unconditional soundness is FALSE (C05_no_blossom_witness / C05_soundness_false, finding F9), but UNCONDITIONALLY the result pairs only adjacent vertices (C05_matching_edges), so the sigma skeleton, hydrogens, charges and non-aromatic bonds are unchanged and every aromatic bond becomes single or double on every accepted input (C05_sigma_skeleton_unconditional, C05_sigma_skeleton_end_to_end; Props/C05k.lean). Tie: find_perfect_matching vs the model on EVERY subcubic graph <= 6/7 vertices + random graphs to 30 vertices with the recorded tape, brute force; aromatic systems in many atom orders judged per spelling by the independent reader. Completeness and order independence are bounded search by design.",
            "§7 C05"),
    "C06": ("Lean theorems C06_strict_iff / C06_strict_raises_iff (strict rejection <=> some atom's bond sum + explicit H exceeds its capacity, for every parse/kekulize result), C06_nonstrict_table_free (the non-strict result does not depend on the table), C06_strict_success_same_as_nonstrict, C06_capacity_key. Tie: correspondence of strict / non-strict encoding under changing tables on at/below/above-capacity molecules, sibling pairs differing only in explicit H, two-fragment combinations; independent bond count on the real code.",
            "§7 C06"),
    "C07": ("Lean theorems C07_alphabet_contents (exact membership + Nodup for every table), C07_structural_symbols_valid, C07_atom_symbols_valid at full strength (since the repair of finding F10 the key grammar bounds the charge digits: C07_charge_bound_needed, C07_long_charge_rejected), C07_alphabet_valid_any_history / C07_strings_decode_any_history (Props/C07f.lean: after ANY history of API calls every symbol of the alphabet of the table in force is accepted by the decoder, and every string over it decodes unless it nests deeper than the recursion budget: residual finding F2r), C07_no_error (from the C08 proofs), C01_valence (outputs obey the table), C07_reflects_current_table. Tie: alphabet of every generated accepted table vs the model and the documented contents; every returned symbol and random strings over it decoded on the real code and judged by the independent reader.",
            "§7 C07"),
    "C08": ("Lean theorems C08_total (full strength, Props/C08t.lean; the API function with the repair of finding F2 = Model/Api.lean decoderApi): for EVERY str, table and flag combination selfies.decoder returns or raises DecoderError; from C08_graph_total / C08_total_partial for the body (returns, DecoderError, or RecursionError on deep nesting) - every IndexError / KeyError / AttributeError / AssertionError / ValueError branch of the Python-semantics layer and fuel exhaustion (non-termination) are proved unreachable, for derivation, ring pass and writer; C08_no_recursion_error_if_shallow. Tie: exception class and result on malformed / arbitrary str x 4 flag combinations, and on table-dependent symbols decoded across a sequence of table changes, vs the model; constraint state compared before/after.",
            "§7 C08"),
    "C09": ("Lean theorems C09_parse_total (the parser returns a graph or SMILESParserError: no IndexError / AttributeError / AssertionError, fuel suffices), C09_kekulize_total, C09_matching_total (also downstream of a non-matching nothing but the documented outcomes is reachable), C09_emit_total, C09_total (full strength, Props/C08t.lean, encoderApi with the repair of finding F2): for EVERY str, table, flags and legal choice tape selfies.encoder returns or raises EncoderError; from C09_total_partial for the body (a third alternative RecursionError on deep nesting: C09_recursionError_witness); C09_no_recursion_error_if_shallow. Tie: exception class and result on malformed / arbitrary str x 4 flag combinations vs the model, and the parser's graph itself (atoms, adjacency with placeholders, counts, delocalisation subgraph) vs the model's graph.",
            "§7 C09"),
    "C10": ("Lean theorems C10_atom_symbol_accepted (every atom the SMILES reader produces is spelled as a symbol the SELFIES reader maps back to the same atom and bond info, for all isotopes/charges/H counts/elements/prefixes, tokens up to 10^4300 characters), C10_standardised + the spelling families (sign runs, H/H1, leading zeros, atom class), C10_branch_ring_symbols_accepted (n < 16^3) and the limit C10_branch_ring_limit, C10_atom_symbol_dispatch; C10_reencode_stable: encoder(decoder(encoder(s))) = encoder(s) for every accepted SMILES (spans < 16^3, depth, length, <= 99 rings). Tie: structured families of bracket atoms through both readers vs the model; chain encoder -> decoder -> encoder on the real code.",
            "§7 C10"),
    "C11": ("Lean theorems C11_cache_coherent / C11_capacity_pure: after ANY history of API calls, rejected updates, cache fills, LRU evictions and caller mutations, the capacity cache agrees with the current table, so what the translators read is a function of the current table only (induction over all operation lists); C11t_table_only_through_capacity (decoder / encoder depend on the table only through the capacity function; the non-strict encoder not at all), C11t_translators_pure, C11t_history_independent (two histories ending in the same table translate alike). get_bonding_capacity and Atom.bonding_capacity are re-translated from the source on every run and proved equal to the model (GenEq3). Tied to the code by random histories on fresh imports compared with the model and with fresh interpreters (several hash seeds).",
            "§7 C11"),
    "C12": ("Lean theorems over ALL histories (induction over operation lists on a state machine with object identity): C12_privacy_dicts, C12_presets_constant, C12_set_get, C12_reject_atomic, C12_validation (+ readable key grammar, incl. the bound on charge digits introduced by the repair of F10: C12_validKey_charge_bound), C12_refines_value_map_partial; the full privacy statement is false for the returned alphabet (C12_alphabet_aliasing_witness, finding F7). Tied to the code by random histories with real mutation of real returned/passed objects on fresh imports.",
            "§7 C12"),
    "C13": ("Lean theorem C13_nop_invisible (and the stronger _items forms): for every well-formed item list and every insertion of [nop] symbols, all four flag combinations, the decoder model returns the same result (including attribution). Tied by decoder correspondence and by the equality on the real code.",
            "§7 C13"),
    "C14": ("Lean theorems C14_split_render, C14_concat, C14_len, C14_alphabet, C14_decoder_tokens for every well-formed item list (unbounded), and C14e_encoder_output_wf / C14e_decoder_consumes / C14e_no_dot_edge: every string the encoder model returns, for every table, SMILES, flags and tape, is well formed and the decoder consumes exactly its symbols. len_selfies, split_selfies (a generator: items yielded + terminal exception; the fuel of its loop is proved sufficient) and get_alphabet_from_selfies are re-translated from the Python source on every run and proved equal to the model for all arguments (GenEq7, GenEq8); a rewrite that leaves the translator's subset is noted in the evidence and falls back to tie (b) for these three functions. Tie: correspondence of the three utilities on generated well-formed and malformed strings; encoder outputs checked on the real code.",
            "§7 C14"),
    "C15": ("Lean theorems C15_label, C15_onehot_rows, C15_inverse_label, C15_inverse_onehot, C15_batch_pointwise, C15_batch_inverse, C15_errors for every vocabulary bijection, string over it and pad length; encoding_to_selfies and selfies_to_encoding are re-translated from the Python source on every run and proved equal to the model for all arguments (GenEq5, GenEq6; the lazy split_selfies generator enters as 'items yielded + terminal exception'). Tied by correspondence over generated vocabularies / strings / pads / enc_type values.",
            "§7 C15"),
    "C16": ("Lean theorems C16_roundtrip (all n, unbounded), C16_horner, C16_shortest, C16_unknown_zero, C16_missing_zero, C16_three_symbols, C16_alphabet_documented (generated constant = table parsed from derivation.rst) + GenEq, GenEq2, GenEq4 (get_index_from_selfies, get_selfies_from_index, _read_index_from_selfies re-translated from the Python source on every run and proved equal to the model for all arguments, incl. termination of the digit loop). Tied exhaustively: every n < 16^3 and every symbol triple on the real functions vs the model.",
            "§7 C16"),
    "C17": ("Lean theorems C17_decoder_same_string / C17_encoder_same_string (attribution never feeds back: erasure commutes with every phase), C17_output_index (every entry's token ends at the reported index, all fragments), C17_input_index(_compat) (every contributing token is the symbol at the reported position), C17_atom_attribution_exact + C17_made_once (Props/C17x.lean: each atom carries EXACTLY the enclosing branch symbols, outermost first, then the atom symbol that made it, and every atom-making symbol makes exactly one atom; 'encloses' is defined on an attribution-free walk of the derivation whose spans are laminar, C17_spans_laminar, and which is Spec.derive with the molecule erased, C17_walk_is_spec_derive), C17_stack_discipline, C17_every_atom_has_entry, C17_encoder_atoms. Tie: full attribution lists (decoder, encoder) vs the model, truthfulness oracles on the real code, and the positions every output atom is attributed to vs the enclosing-branch lists of the attribution-free walk (driver op encl).",
            "§7 C17"),
    "C18": ("Lean theorems C18_conservative, C18_commutes (string level, all strings, with attribution), C18_idempotent, C18_table_documented, C18_legacy_*_rejected_without_flag, C18_legacy_atoms. Tied by symbol-level correspondence of modernize_symbol on every legacy family and decoder correspondence with/without the flag.",
            "§7 C18"),
    "C19": ("Lean theorems C19_schedule_independent / C19_cache_coherent: for every family of memo-table programs, every interleaving and every eviction, each finished call returns what it returns alone; instantiated for the capacity and atom-symbol memo tables. The claim that the real calls interact only through these tables is an inventory re-derived from the source on every run; a thread stress run compares concurrent with serial results. CPython container atomicity is assumed.",
            "§7 C19"),
}

TECH = "Lean 4 proof of the model + checked tie (translator for tables/state functions, differential correspondence of the compiled model with the code)"
TECH_TV = "Lean 4 executable model + translator + differential correspondence (theorems pending); failing-input search with independent oracles"


def main():
    with open(os.path.join(VERIF, "lean", "PROPERTY_THEOREMS.json")) as f:
        T = json.load(f)
    checks = []
    for p in sorted(TEXT):
        e = T[p]
        proof = e.get("level") == "proof"
        note = "Trusted: Lean 4.33 kernel (axioms propext, Classical.choice, Quot.sound only), the Lean compiler for the driver, the translator (gen_tables.py, py2lean.py: tables, the three state functions, the index code, the index reader and the capacity look-up are regenerated from the source on every run and proved equal to the hand model in Proofs/GenEq*.lean), CPython 3.12 semantics as modelled in Py.lean and Generated/PyRt.lean. The algorithms are modelled by hand and tied by differential testing, not verified."
        if e.get("not_proved"):
            note += " NOT proved: " + "; ".join(e["not_proved"])
        checks.append({
            "property_id": p,
            "quick_cmd": "/venv/bin/python harness/check.py --property %s --tier quick" % p,
            "thorough_cmd": "/venv/bin/python harness/check.py --property %s --tier thorough" % p,
            "evidence_file": "evidence/%s.json" % p,
            "replay_cmd_template": "/venv/bin/python harness/replay.py {path}",
            "engine": "lean-model",
            "level_claimed": {"category": "proof" if proof else "other", "text": TEXT[p][0], "design_ref": "DESIGN.md " + TEXT[p][1]},
            "level_note": note,
            "technique": TECH if proof else TECH_TV,
        })
    man = {
        "version": 1,
        "setup_cmd": "cd lean && lake build SelfiesVerif selfies_model $(/venv/bin/python ../harness/list_prop_modules.py)",
        "hooks": {
            "guard": "SELFIES_VERIF",
            "enable": "no hooks are needed: the harness reaches caches and module globals from outside (a recording set injected into selfies.utils.matching_utils for the matcher's set.pop() choices; a spy on the module-level name mol_to_smiles of selfies.decoder to capture the graph the real decoder() builds) - run-time monkey-patching from the harness process only, no change to the library",
            "baseline_off_cmd": "cd /repo && /venv/bin/python -m pytest -ra -q -p no:cacheprovider --timeout=900 --continue-on-collection-errors",
            "source_commits": [],
            "add_only": True,
        },
        "engines": [{"name": "lean-model", "path": "lean/", "serves_properties": sorted(TEXT),
                     "kind_free_text": "Lean 4 model + theorems (lake project), compiled line-protocol driver, Python harness (translator, generators, differential correspondence, independent oracles)"}],
        "checks": checks,
        "not_applicable": [],
        "notes": "All 19 properties are claimed. Every check regenerates the Lean tables/state functions from /repo, rebuilds and re-audits the theorems, runs the correspondence and the failing-input search. Genuine defects found: see known_findings.json and DESIGN.md §8.",
    }
    with open(os.path.join(VERIF, "MANIFEST.json"), "w") as f:
        json.dump(man, f, indent=1)
    print("checks:", len(checks), "proof-level:", sum(c["level_claimed"]["category"] == "proof" for c in checks))


if __name__ == "__main__":
    main()
