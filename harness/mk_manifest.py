#!/venv/bin/python
"""(Re)generate MANIFEST.json from lean/PROPERTY_THEOREMS.json and the texts below."""
import json
import os

HERE = os.path.dirname(os.path.abspath(__file__))
VERIF = os.path.dirname(HERE)

TEXT = {
    "C01": ("Lean theorems C01_valence, C01_counts_consistent, C01_simple_graph, C01_forest: for EVERY table, string and flag combination, the molecule graph the decoder model builds obeys every atom's capacity, its tracked counts equal the true bond sums, it is a simple graph and a forest plus ring bonds (induction over the derivation and the ring queue, no bound). The model is tied to the code by regenerated tables/state functions and by differential correspondence of the output SMILES (all strings <= 3/4 symbols over a cover alphabet, stay-alive and uniform streams, several tables). The writer-level syntax clauses and the external-sanitizer clause are decided by an independent SMILES reader and RDKit on the real outputs only.",
            "§7 C01"),
    "C02": ("The decoder model mirrors the code and is tied to it by exhaustive small-scope correspondence (every string <= 3 (quick) / 4 (thorough) symbols over 28 symbols covering every rule and state, under 4 tables) plus sampled streams; index code, state functions and tables are regenerated from the source and the derivation.rst index table is proved equal to the constant (C16). The refinement theorem to an independent rendering of derivation.rst is not written yet, so this check is a translation validation of the code against the Lean rendering, not yet a proof of C02.",
            "§7 C02"),
    "C03": ("Differential correspondence of parser, kekulization (with the recorded choice tape), encoder and decoder with the Lean model on dataset molecules, their re-spellings, random trees and long spans; the property itself (atom-for-atom, bond-for-bond equality) is judged on the real round trip by an independent SMILES reader, RDKit as second judge. The central theorem decode(encode g) = g is not proved yet.",
            "§7 C03"),
    "C04": ("Lean theorems C04_parity_spec / C04_parity_eq (the encoder's chirality flip is exactly the parity of the permutation between the written neighbour order and the decoder's order, for every graph), C04_inversions_parity (inversion count = transposition parity), C04_ring_marks / C04_chain_marks (every '/' '\\' mark is carried by the emitted symbol and read back on the right end; decide over the regenerated ring table). The decoder-side half of the end-to-end statement is carried by correspondence and by the independent handedness oracle on the real round trip.",
            "§7 C04"),
    "C05": ("find_perfect_matching is compared with the Lean model on EVERY simple graph with <= 6/7 vertices and max degree 3 (with the recorded choice tape) and against brute force; aromatic systems in many atom orders go through the real encoder+decoder and are judged per spelling by an independent reader (sigma skeleton, at most one double bond per atom inside the system) and for order-independent acceptance. No soundness theorem yet; completeness and order independence are bounded search by design.",
            "§7 C05"),
    "C06": ("Correspondence of strict / non-strict encoding with the Lean model under changing tables; strict rejection is judged against an independent bond count, the non-strict result is compared across tables. Lean theorems (C06_nonstrict_table_free, C06_strict_iff) are registered as they are proved.",
            "§7 C06"),
    "C07": ("Alphabet of every generated accepted table compared with the model's and with the documented contents; every returned symbol and random strings over it are decoded on the real code and judged by the independent reader; that outputs obey the table is C01_valence (proved for all strings and tables).",
            "§7 C07"),
    "C08": ("Exception class and result of decoder on malformed / arbitrary str x 4 flag combinations compared with the Lean model, whose Python-semantics layer makes every failing primitive explicit; the constraint state is compared before/after. The totality theorem is not proved yet (and is false without hypotheses: finding F2).",
            "§7 C08"),
    "C09": ("Exception class and result of encoder on malformed / arbitrary str x 4 flag combinations compared with the Lean model (explicit failures for every list/dict/assert/next primitive). The totality theorem is not proved yet (false without hypotheses: finding F2).",
            "§7 C09"),
    "C10": ("Symbol-level families (every bracket-atom spelling of a structured family through the SMILES atom reader/writer and the SELFIES atom reader) and the chain encoder -> decoder -> encoder on the real code and against the model. Lean symbol lemmas (C10_atom_symbol_accepted, C10_branch_ring_symbols_accepted) are registered as they are proved.",
            "§7 C10"),
    "C11": ("Lean theorems C11_cache_coherent / C11_capacity_pure: after ANY history of API calls, rejected updates, cache fills, LRU evictions and caller mutations, the capacity cache agrees with the current table, so what the translators read is a function of the current table only (induction over all operation lists). Tied to the code by random histories on fresh imports compared with the model and with fresh interpreters (several hash seeds).",
            "§7 C11"),
    "C12": ("Lean theorems over ALL histories (induction over operation lists on a state machine with object identity): C12_privacy_dicts, C12_presets_constant, C12_set_get, C12_reject_atomic, C12_validation (+ readable key grammar), C12_refines_value_map_partial; the full privacy statement is false for the returned alphabet (C12_alphabet_aliasing_witness, finding F7). Tied to the code by random histories with real mutation of real returned/passed objects on fresh imports.",
            "§7 C12"),
    "C13": ("Lean theorem C13_nop_invisible (and the stronger _items forms): for every well-formed item list and every insertion of [nop] symbols, all four flag combinations, the decoder model returns the same result (including attribution). Tied by decoder correspondence and by the equality on the real code.",
            "§7 C13"),
    "C14": ("Lean theorems C14_split_render, C14_concat, C14_len, C14_alphabet, C14_decoder_tokens for every well-formed item list (unbounded). Tied by correspondence of the three utilities on generated well-formed and malformed strings; encoder output well-formedness by oracle.",
            "§7 C14"),
    "C15": ("Lean theorems C15_label, C15_onehot_rows, C15_inverse_label, C15_inverse_onehot, C15_batch_pointwise, C15_batch_inverse, C15_errors for every vocabulary bijection, string over it and pad length. Tied by correspondence over generated vocabularies / strings / pads / enc_type values.",
            "§7 C15"),
    "C16": ("Lean theorems C16_roundtrip (all n, unbounded), C16_horner, C16_shortest, C16_unknown_zero, C16_missing_zero, C16_three_symbols, C16_alphabet_documented (generated constant = table parsed from derivation.rst) + GenEq. Tied exhaustively: every n < 16^3 and every symbol triple on the real functions vs the model.",
            "§7 C16"),
    "C17": ("Correspondence of the full attribution lists (decoder and encoder) with the Lean model, and truthfulness oracles (output index, input index, enclosing branch symbols) on the real code. No attribution theorem yet.",
            "§7 C17"),
    "C18": ("Lean theorems C18_conservative, C18_commutes (string level, all strings, with attribution), C18_idempotent, C18_table_documented, C18_legacy_*_rejected_without_flag, C18_legacy_atoms. Tied by symbol-level correspondence of modernize_symbol on every legacy family and decoder correspondence with/without the flag.",
            "§7 C18"),
    "C19": ("Lean theorems C19_schedule_independent / C19_cache_coherent: for every family of memo-table programs, every interleaving and every eviction, each finished call returns what it returns alone; instantiated for the capacity and atom-symbol memo tables. The claim that the real calls interact only through these tables is an inventory re-derived from the source on every run; a thread stress run compares concurrent with serial results. CPython container atomicity is assumed.",
            "§7 C19"),
}

TECH = "Lean 4 proof of the model + checked tie (translator for tables/state functions, differential correspondence of the compiled model with the code)"
TECH_TV = "Lean 4 executable model + translator + differential correspondence (theorems pending); failing-input search with independent oracles"


def main():
    with open(os.path.join(VERIF, "lean", "PROPERTY_THEOREMS.json")) as f:
        T = json.load(f)
    checks = []
    for p in sorted(TEXT):
        e = T[p]
        proof = e.get("level") == "proof"
        note = "Trusted: Lean 4.33 kernel (axioms propext, Classical.choice, Quot.sound only), the Lean compiler for the driver, the translator (gen_tables.py, py2lean.py), CPython 3.12 semantics as modelled in Py.lean. The algorithms are modelled by hand and tied by differential testing, not verified."
        if e.get("not_proved"):
            note += " NOT proved: " + "; ".join(e["not_proved"])
        checks.append({
            "property_id": p,
            "quick_cmd": "/venv/bin/python harness/check.py --property %s --tier quick" % p,
            "thorough_cmd": "/venv/bin/python harness/check.py --property %s --tier thorough" % p,
            "evidence_file": "evidence/%s.json" % p,
            "replay_cmd_template": "/venv/bin/python harness/replay.py {path}",
            "engine": "lean-model",
            "level_claimed": {"category": "proof" if proof else "other", "text": TEXT[p][0], "design_ref": "DESIGN.md " + TEXT[p][1]},
            "level_note": note,
            "technique": TECH if proof else TECH_TV,
        })
    man = {
        "version": 1,
        "setup_cmd": "cd lean && lake build SelfiesVerif selfies_model $(/venv/bin/python ../harness/list_prop_modules.py)",
        "hooks": {
            "guard": "SELFIES_VERIF",
            "enable": "no hooks are needed: the harness reaches caches and module globals from outside (recording set injected into selfies.utils.matching_utils)",
            "baseline_off_cmd": "cd /repo && /venv/bin/python -m pytest -ra -q -p no:cacheprovider --timeout=900 --continue-on-collection-errors",
            "source_commits": [],
            "add_only": True,
        },
        "engines": [{"name": "lean-model", "path": "lean/", "serves_properties": sorted(TEXT),
                     "kind_free_text": "Lean 4 model + theorems (lake project), compiled line-protocol driver, Python harness (translator, generators, differential correspondence, independent oracles)"}],
        "checks": checks,
        "not_applicable": [],
        "notes": "All 19 properties are claimed. Every check regenerates the Lean tables/state functions from /repo, rebuilds and re-audits the theorems, runs the correspondence and the failing-input search. Genuine defects found: see known_findings.json and DESIGN.md §8.",
    }
    with open(os.path.join(VERIF, "MANIFEST.json"), "w") as f:
        json.dump(man, f, indent=1)
    print("checks:", len(checks), "proof-level:", sum(c["level_claimed"]["category"] == "proof" for c in checks))


if __name__ == "__main__":
    main()
