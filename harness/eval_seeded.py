#!/venv/bin/python
"""Run registered checks against a seeded change and record which ones catch it.

    /venv/bin/python harness/eval_seeded.py seeded/<id> [--props C01,C02 | --all] [--tier quick] [--in-repo]

Default: a scratch worktree of /repo HEAD is created under /tmp, the patch is applied THERE and the checks run
with SELFIES_REPO=<scratch> (so that /repo itself stays untouched while other work reads it); the worktree
is removed afterwards. With --in-repo the patch is applied to /repo itself (git apply), the checks run, and
it is ALWAYS reverted (git checkout -- .). Writes seeded/<id>/result.json. Never commits anything."""
import argparse
import json
import os
import re
import subprocess
import sys
import time

HERE = os.path.dirname(os.path.abspath(__file__))
VERIF = os.path.dirname(HERE)
REPO = "/repo"
ALL = ["C%02d" % i for i in range(1, 20)]


def sh(cmd, **kw):
    return subprocess.run(cmd, shell=True, stdout=subprocess.PIPE, stderr=subprocess.STDOUT, **kw)


def main():
    ap = argparse.ArgumentParser()
    ap.add_argument("dir")
    ap.add_argument("--props", default=None)
    ap.add_argument("--all", action="store_true")
    ap.add_argument("--tier", default="quick")
    ap.add_argument("--seed", default="0")
    ap.add_argument("--in-repo", action="store_true")
    args = ap.parse_args()
    d = os.path.join(VERIF, args.dir) if not os.path.isabs(args.dir) else args.dir
    meta = json.load(open(os.path.join(d, "meta.json")))
    props = ALL if args.all else (args.props.split(",") if args.props else [meta["property"]])
    patch = os.path.join(d, "patch.diff")
    if args.in_repo:
        target = REPO
        st = sh("git -C %s status --porcelain" % REPO).stdout.decode().strip()
        if st:
            print("refusing: /repo has uncommitted changes:\n" + st)
            return 2
    else:
        target = "/tmp/seedeval_%s_%d" % (os.path.basename(d.rstrip("/")), os.getpid())
        sh("git -C %s worktree remove --force %s" % (REPO, target))
        r = sh("git -C %s worktree add -q %s HEAD" % (REPO, target))
        if r.returncode != 0:
            print("cannot create scratch worktree:", r.stdout.decode())
            return 2
    r = sh("git -C %s apply %s" % (target, patch))
    if r.returncode != 0:
        print("patch does not apply:", r.stdout.decode())
        if not args.in_repo:
            sh("git -C %s worktree remove --force %s" % (REPO, target))
        return 2
    results = {}
    try:
        for p in props:
            t0 = time.time()
            env = dict(os.environ)
            env["VERIF_SEED"] = args.seed
            env["SELFIES_REPO"] = target
            env["VERIF_EVIDENCE_DIR"] = "/tmp/seedeval_evidence"
            r = subprocess.run(["/venv/bin/python", os.path.join(HERE, "check.py"), "--property", p, "--tier", args.tier],
                               cwd=VERIF, stdout=subprocess.PIPE, stderr=subprocess.STDOUT, env=env, timeout=7200)
            out = r.stdout.decode(errors="replace")
            vio = [l for l in out.split("\n") if l.startswith("VIOLATION")]
            info = {"exit": r.returncode, "violation_lines": vio, "wall_s": round(time.time() - t0, 1)}
            if vio:
                m = re.search(r"replay=(\S+)", vio[0])
                if m:
                    try:
                        rep = json.load(open(os.path.join(VERIF, m.group(1))))
                        info["kind"] = rep.get("kind")
                        if rep.get("violation"):
                            info["sig"] = rep["violation"].get("sig")
                            info["what"] = rep["violation"].get("what")
                            info["input"] = {k: (str(v)[:300]) for k, v in rep["violation"].items() if k not in ("sig", "what")}
                        else:
                            info["broken"] = [b[0] for b in rep.get("broken_obligations", [])][:5]
                            info["streams"] = sorted({c["stream"] for c in rep.get("correspondence_disagreements", [])})[:6]
                    except Exception as e:  # noqa
                        info["replay_error"] = str(e)
            results[p] = info
            print(p, info.get("exit"), info.get("kind"), info.get("sig"), info.get("broken"), info.get("streams"), "%.0fs" % info["wall_s"])
    finally:
        if args.in_repo:
            sh("git -C %s checkout -- ." % REPO)
            st = sh("git -C %s status --porcelain" % REPO).stdout.decode().strip()
            if st:
                print("WARNING: /repo not clean after revert:\n" + st)
        else:
            sh("git -C %s worktree remove --force %s" % (REPO, target))
    # leave lean/SelfiesVerif/Generated as regenerated from /repo itself (every check regenerates anyway; this only
    # keeps the working tree free of files derived from the scratch tree)
    env0 = dict(os.environ)
    env0["SELFIES_REPO"] = REPO
    env0["PYTHONPATH"] = REPO
    subprocess.run(["/venv/bin/python", os.path.join(HERE, "gen_tables.py")], stdout=subprocess.DEVNULL,
                   stderr=subprocess.DEVNULL, env=env0)
    out_path = os.path.join(d, "result.json")
    old = {}
    if os.path.exists(out_path):
        old = json.load(open(out_path))
    old.setdefault("runs", {})
    old["runs"]["%s/seed%s" % (args.tier, args.seed)] = results
    json.dump(old, open(out_path, "w"), indent=1)
    caught = [p for p, i in results.items() if i["exit"] == 1]
    print("caught by:", caught)
    return 0


if __name__ == "__main__":
    sys.exit(main())
