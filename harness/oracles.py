"""Independent oracles used ONLY to search for a concrete failing input on the real implementation
and to validate generators: a small reference SMILES reader written from the OpenSMILES rules
(it shares no code with /repo), graph comparison, handedness comparison, valence check; RDKit as a
second, independent judge where a property names an external sanitizer / canonicaliser."""
import re

ORGANIC = {"B", "C", "N", "O", "S", "P", "F", "Cl", "Br", "I"}
AROMATIC = {"b", "c", "n", "o", "s", "p", "se", "as", "te", "si", "al"}
BOND_ORDER = {"-": 1, "=": 2, "#": 3, ":": 1.5, "/": 1, "\\": 1}

_BRACKET = re.compile(r"^\[(\d*)([A-Za-z][a-z]?)(@{0,2})(?:H(\d?))?((?:\++|-+|[+-]\d+)?)(?::\d+)?\]$")


class SmilesError(Exception):
    pass


class RAtom:
    __slots__ = ("element", "aromatic", "isotope", "chirality", "hcount", "charge", "nbrs", "bracket")

    def __init__(self):
        self.nbrs = []   # written neighbour order: atom indices, 'H' for implicit H, ('ring', label) placeholders

    def key(self):
        return (self.element, self.isotope, self.charge, self.hcount)


def read_atom(tok):
    a = RAtom()
    if tok.startswith("["):
        m = _BRACKET.match(tok)
        if not m:
            raise SmilesError("bad bracket atom " + tok)
        iso, el, chir, h, chg = m.groups()
        a.bracket = True
        a.isotope = int(iso) if iso else None
        a.aromatic = el.islower() and el in AROMATIC
        a.element = el.capitalize()
        a.chirality = chir or None
        a.hcount = 0 if h is None else (1 if h == "" else int(h))
        if not chg:
            a.charge = 0
        elif chg[-1].isdigit():
            a.charge = int(chg[1:]) * (1 if chg[0] == "+" else -1)
        else:
            a.charge = len(chg) * (1 if chg[0] == "+" else -1)
    else:
        a.bracket = False
        a.isotope = None
        a.chirality = None
        a.hcount = None
        a.charge = 0
        if tok in ORGANIC:
            a.element, a.aromatic = tok, False
        elif tok in AROMATIC:
            a.element, a.aromatic = tok.capitalize(), True
        else:
            raise SmilesError("bad atom " + tok)
    return a


_TOKEN = re.compile(r"\[[^\]]*\]|Br|Cl|%\d\d|%|\d|[A-Za-z]|.", re.S)


class RMol:
    def __init__(self):
        self.atoms = []
        self.bonds = {}     # (i, j) i<j -> order
        self.marks = {}     # (i, j) i<j -> mark as seen going from i to j ('/' or '\\')
        self.ring_bonds = set()
        self.n_ring_labels = 0
        self.max_label = 0

    def add_bond(self, i, j, order, mark_from_i):
        if i == j:
            raise SmilesError("self bond")
        k = (min(i, j), max(i, j))
        if k in self.bonds:
            raise SmilesError("second bond between a bonded pair")
        self.bonds[k] = order
        if mark_from_i is not None:
            m = mark_from_i if i < j else ("\\" if mark_from_i == "/" else "/")
            self.marks[k] = m

    def bond_sum(self, i):
        return sum(o for (a, b), o in self.bonds.items() if a == i or b == i)


def read_smiles(s, strict_labels=True):
    """reference reader; raises SmilesError on anything syntactically illegal"""
    if s == "":
        raise SmilesError("empty")
    mol = RMol()
    toks = _TOKEN.findall(s)
    prev = None
    stack = []
    pending = None        # bond symbol waiting for its right-hand side
    open_rings = {}       # label -> (atom, bond symbol, position in atom's nbrs)
    just_opened = False   # directly after '(' or at start / after '.'
    expect_atom = True
    for t in toks:
        if t in BOND_ORDER:
            if pending is not None:
                raise SmilesError("two bond symbols")
            if prev is None:
                raise SmilesError("bond symbol without left atom")
            pending = t
        elif t == "(":
            if prev is None or pending is not None or expect_atom:
                raise SmilesError("bad (")
            stack.append(prev)
            expect_atom = True
            just_opened = True
        elif t == ")":
            if not stack or pending is not None or expect_atom:
                raise SmilesError("bad ) or empty branch")
            prev = stack.pop()
        elif t == ".":
            if pending is not None or stack or expect_atom:
                raise SmilesError("bad dot")
            prev = None
            expect_atom = True
        elif t == "%":
            raise SmilesError("bad % label")
        elif t[0] == "%" or t.isdigit():
            if prev is None or expect_atom:
                raise SmilesError("ring label without atom")
            lab = int(t[1:]) if t[0] == "%" else int(t)
            if t[0] == "%" and strict_labels and lab < 10:
                pass
            mol.max_label = max(mol.max_label, lab)
            if lab in open_rings:
                a, sym, pos = open_rings.pop(lab)
                lo = BOND_ORDER.get(sym, None) if sym else None
                ro = BOND_ORDER.get(pending, None) if pending else None
                if lo is not None and ro is not None and lo != ro:
                    raise SmilesError("mismatched ring bond orders")
                order = lo if lo is not None else ro
                if order is None:
                    order = 1.5 if (mol.atoms[a].aromatic and mol.atoms[prev].aromatic) else 1
                # mark: as written on the opening side (a -> prev) or closing side (prev -> a)
                mark_from_a = None
                if sym in ("/", "\\"):
                    mark_from_a = sym
                elif pending in ("/", "\\"):
                    mark_from_a = "\\" if pending == "/" else "/"
                if sym in ("/", "\\") and pending in ("/", "\\"):
                    # both ends marked: must be consistent (opposite symbols = same direction)
                    pass
                mol.add_bond(a, prev, order, mark_from_a)
                mol.ring_bonds.add((min(a, prev), max(a, prev)))
                mol.atoms[a].nbrs[pos] = prev
                mol.atoms[prev].nbrs.append(a)
                pending = None
            else:
                open_rings[lab] = (prev, pending, len(mol.atoms[prev].nbrs))
                mol.atoms[prev].nbrs.append(("ring", lab))
                mol.n_ring_labels += 1
                pending = None
        else:
            a = read_atom(t)
            idx = len(mol.atoms)
            mol.atoms.append(a)
            if prev is not None:
                order = BOND_ORDER[pending] if pending else \
                    (1.5 if (mol.atoms[prev].aromatic and a.aromatic) else 1)
                mark = pending if pending in ("/", "\\") else None
                mol.add_bond(prev, idx, order, mark)
                a.nbrs.append(prev)
                if a.bracket and a.hcount:
                    a.nbrs.extend(["H"] * a.hcount)
                mol.atoms[prev].nbrs.append(idx)
            else:
                if pending is not None:
                    raise SmilesError("bond symbol at fragment start")
                if a.bracket and a.hcount:
                    a.nbrs.extend(["H"] * a.hcount)
            pending = None
            prev = idx
            expect_atom = False
            just_opened = False
    if pending is not None:
        raise SmilesError("hanging bond")
    if stack:
        raise SmilesError("unclosed (")
    if expect_atom:
        raise SmilesError("ends where an atom is expected")
    if open_rings:
        raise SmilesError("unclosed ring label")
    return mol


def capacity(table, element, charge):
    key = element if charge == 0 else "%s%+d" % (element, charge)
    return table[key] if key in table else table["?"]


def check_decoder_output(out, table):
    """C01 predicate on a decoder output. Returns None if fine, else a short reason string."""
    if out == "":
        return None
    try:
        mol = read_smiles(out)
    except SmilesError as e:
        return "syntax: %s" % e
    for i, a in enumerate(mol.atoms):
        if a.aromatic:
            return "aromatic atom in decoder output"
        cap = capacity(table, a.element, a.charge)
        used = mol.bond_sum(i) + (a.hcount or 0)
        if used > cap:
            return "valence: atom %d %s uses %s > %s" % (i, a.element, used, cap)
    return None


def graph_matches_reader(mol, out):
    """does the independent reader recover, from the written SMILES `out`, the graph the decoder built (`mol`, the
    library's MolecularGraph)?  Returns None or a reason."""
    try:
        r = read_smiles(out) if out else None
    except SmilesError as e:
        return "syntax: %s" % e
    atoms = mol.get_atoms()
    n = 0 if r is None else len(r.atoms)
    if n != len(atoms):
        return "atom count %d != %d" % (n, len(atoms))
    for i, (x, y) in enumerate(zip(atoms, r.atoms if r else [])):
        if (x.element, x.isotope, x.charge, (x.h_count or 0)) != (y.element, y.isotope, y.charge, (y.hcount or 0)):
            return "atom %d differs" % i
    want = {}
    for (a, b), bond in mol._bond_dict.items():
        want[(min(a, b), max(a, b))] = bond.order
    have = dict(r.bonds) if r else {}
    if want != have:
        return "bonds differ: %s" % sorted(set(want.items()) ^ set(have.items()))[:4]
    return None


def same_molecule(a, b, aromatic_ok=True):
    """C03 predicate: index-wise equal atoms, equal bonded pairs with equal orders; an aromatic
    bond of `a` may be 1 or 2 in `b`. Returns None or a reason."""
    if len(a.atoms) != len(b.atoms):
        return "atom count %d != %d" % (len(a.atoms), len(b.atoms))
    for i, (x, y) in enumerate(zip(a.atoms, b.atoms)):
        if (x.element, x.isotope, x.charge) != (y.element, y.isotope, y.charge):
            return "atom %d differs: %s vs %s" % (i, x.key(), y.key())
        hx, hy = x.hcount, y.hcount
        if x.aromatic and hx is None:
            continue       # implicit H of aromatic atoms is decided by kekulisation
        if hx != hy and not (hx in (None,) and hy in (None,)):
            # [CH0]-style: bracket atom with 0 H is written H0 for organic atoms
            if not ((hx or 0) == (hy or 0) and (x.bracket == y.bracket)):
                return "atom %d H count differs: %s vs %s" % (i, hx, hy)
    if set(a.bonds) != set(b.bonds):
        return "bonded pairs differ: only-in %s / only-out %s" % (
            sorted(set(a.bonds) - set(b.bonds))[:3], sorted(set(b.bonds) - set(a.bonds))[:3])
    for k, o in a.bonds.items():
        if o == 1.5:
            if b.bonds[k] not in (1, 2):
                return "aromatic bond %s became %s" % (k, b.bonds[k])
        elif b.bonds[k] != o:
            return "bond %s order %s -> %s" % (k, o, b.bonds[k])
    return None


def kekule_ok(a, b):
    """C05 predicate on (input with aromatic bonds, output): every atom keeps its sigma skeleton;
    inside the former aromatic system every atom has at most one double bond"""
    arom_bonds = [k for k, o in a.bonds.items() if o == 1.5]
    per_atom = {}
    for (i, j) in arom_bonds:
        if b.bonds.get((i, j)) == 2:
            per_atom[i] = per_atom.get(i, 0) + 1
            per_atom[j] = per_atom.get(j, 0) + 1
    for i, c in per_atom.items():
        if c > 1:
            return "atom %d has %d double bonds inside the aromatic system" % (i, c)
    # "every aromatic atom that needs a pi bond has exactly one": decided here only where the answer does not depend
    # on a valence model - an organic-subset aromatic carbon `c` (not bracketed, neutral) with at most three
    # neighbours needs one unless it carries an exocyclic double bond
    deg, exo = {}, {}
    for (i, j), o in a.bonds.items():
        for x in (i, j):
            deg[x] = deg.get(x, 0) + 1
            if o in (2, 3):       # an explicitly written multiple bond (exocyclic C=O, or c#c inside the ring)
                exo[x] = exo.get(x, 0) + 1
    in_system = set(x for k in arom_bonds for x in k)
    for i in sorted(in_system):
        x = a.atoms[i]
        if x.element in ("c", "C") and x.aromatic and not x.bracket and x.charge == 0 and deg.get(i, 0) <= 3:
            want = 0 if exo.get(i, 0) else 1
            if per_atom.get(i, 0) != want:
                return "aromatic carbon %d has %d double bonds inside the aromatic system, needs %d" % (i, per_atom.get(i, 0), want)
    return None


def _parity(p, q):
    """parity of the permutation taking sequence p to sequence q (same multiset; duplicates 'H'
    are matched left to right)"""
    q = list(q)
    idx = []
    used = [False] * len(q)
    for x in p:
        for k, y in enumerate(q):
            if not used[k] and y == x:
                used[k] = True
                idx.append(k)
                break
        else:
            return None
    inv = 0
    for i in range(len(idx)):
        for j in range(i + 1, len(idx)):
            if idx[i] > idx[j]:
                inv += 1
    return inv % 2


def same_stereo(a, b):
    """C04 predicate: same handedness of every @/@@ atom (judged from written neighbour orders),
    same '/' '\\' marks per bond and direction"""
    for i, (x, y) in enumerate(zip(a.atoms, b.atoms)):
        if x.chirality is None and y.chirality is None:
            continue
        if x.chirality is None or y.chirality is None:
            return "atom %d lost/gained its chirality tag: %s -> %s" % (i, x.chirality, y.chirality)
        if len(set(n for n in x.nbrs if n != "H")) + x.nbrs.count("H") < 3:
            continue   # not a stereocentre: nothing to compare
        if x.nbrs.count("H") > 1:
            continue
        par = _parity(x.nbrs, y.nbrs)
        if par is None:
            return "atom %d neighbours differ: %s vs %s" % (i, x.nbrs, y.nbrs)
        same_tag = (x.chirality == y.chirality)
        if (par == 0) != same_tag:
            return "atom %d handedness flipped: %s%s -> %s%s" % (i, x.chirality, x.nbrs, y.chirality, y.nbrs)
    ma = {k: v for k, v in a.marks.items() if a.bonds.get(k) == 1}
    mb = {k: v for k, v in b.marks.items() if b.bonds.get(k) == 1}
    if ma != mb:
        diff = [(k, ma.get(k), mb.get(k)) for k in sorted(set(ma) | set(mb)) if ma.get(k) != mb.get(k)]
        return "bond marks differ: %s" % diff[:4]
    return None


def modernize(sym):
    """the documented modern equivalent of a pre-v2 symbol, computed independently of selfies.compatibility:
    the CHANGELOG table for branch / ring symbols; for `[<bond>BODYexpl]` the atom BODY is read with the
    reference atom reader and re-spelled in the standard form (isotope, element, chirality, H<n>, charge)"""
    m = re.fullmatch(r"\[Branch([123])_([123])\]", sym)
    if m:
        return "[%sBranch%s]" % (["", "=", "#"][int(m.group(2)) - 1], m.group(1))
    m = re.fullmatch(r"\[Expl([=#/\\])Ring([123])\]", sym)
    if m:
        b = m.group(1)
        return "[%sRing%s]" % (b if b in "=#" else b + b, m.group(2))
    if sym.endswith("expl]") and len(sym) >= 6:
        if sym[1] in "=#/\\":
            bond, body = sym[1], sym[2:-5]
        else:
            bond, body = "", sym[1:-5]
        try:
            a = read_atom("[" + body + "]")
        except SmilesError:
            return sym
        if a.aromatic:
            return sym
        from_elements = True
        out = ""
        if a.isotope is not None:
            out += str(a.isotope)
        out += a.element
        if a.chirality:
            out += a.chirality
        if a.hcount:
            out += "H%d" % a.hcount
        elif a.isotope is None and not a.chirality and a.charge == 0 and a.element in ORGANIC:
            out += "H0"
        if a.charge:
            out += "%+d" % a.charge
        return "[" + bond + out + "]"
    return sym


# --------------------------------------------------------------------------- RDKit

def rdkit_valid(smiles):
    from rdkit import Chem, RDLogger
    RDLogger.DisableLog("rdApp.*")
    try:
        return Chem.MolFromSmiles(smiles, sanitize=True) is not None
    except Exception:
        return False


def rdkit_canon(smiles):
    from rdkit import Chem, RDLogger
    RDLogger.DisableLog("rdApp.*")
    try:
        m = Chem.MolFromSmiles(smiles)
        if m is None:
            return None
        return Chem.MolToSmiles(m)
    except Exception:
        return None
