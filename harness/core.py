"""Check protocol (DESIGN §4): regenerate -> build -> audit -> correspondence -> known findings ->
verdict, plus evidence and replay files.  Property-specific work lives in props_*.py."""
import ast
import fcntl
import hashlib
import json
import os
import re
import subprocess
import sys
import time

HERE = os.path.dirname(os.path.abspath(__file__))
VERIF = os.path.dirname(HERE)
LEAN = os.path.join(VERIF, "lean")
REPO = os.environ.get("SELFIES_REPO", "/repo")
PY = sys.executable

ALLOWED_AXIOMS = {"propext", "Classical.choice", "Quot.sound"}
FORBIDDEN = re.compile(r"\bsorry\b|\badmit\b|^\s*axiom\s|native_decide|bv_decide|implemented_by|\bunsafe\s|maxHeartbeats\s+0")

TRUSTED_BASE = [
    "Lean 4.33.0 kernel (leanchecker re-check in the thorough tier); axioms allowed: propext, Classical.choice, Quot.sound",
    "Lean compiler/runtime for the compiled model driver (agreement with the kernel's reading of the same definitions)",
    "translator harness/gen_tables.py + py2lean.py (tables, state functions regenerated from /repo on every run)",
    "correspondence check: algorithms are hand-modelled in Lean and differentially tested against the real code, not verified",
    "CPython 3.12 semantics assumed by the Python-semantics layer (SelfiesVerif/Py.lean, Generated/PyEnv.lean)",
]


class Ctx:
    """everything a property check accumulates during one run"""

    def __init__(self, prop, tier, seed):
        self.prop = prop
        self.tier = tier
        self.seed = seed
        self.t0 = time.time()
        self.evaluations = 0
        self.distinct = set()
        self.samples = []
        self.streams = {}          # name -> {evaluations, disagreements, ...}
        self.disagreements = []    # (stream, request line, model reply, impl reply, human readable input)
        self.violations = []       # concrete property violations on the real code: dict(what, input, ...)
        self.known_hits = []       # (finding id, what)
        self.obligations = []      # theorem names (+ side conditions) the property depends on
        self.discharged = []
        self.broken = []           # broken obligations: (name, reason)
        self.notes = []
        self.exhaustive = False
        self.distribution = {}
        self.escalated = []
        self.not_proved = []
        self.assumptions = []

    def elapsed(self):
        return time.time() - self.t0

    def quick(self):
        return self.tier == "quick"

    def scale(self, quick, thorough):
        return quick if self.tier == "quick" else thorough

    def sample(self, x):
        if len(self.samples) < 12:
            self.samples.append(x)

    def stream(self, name):
        return self.streams.setdefault(name, {"evaluations": 0, "disagreements": 0})


# ------------------------------------------------------------------ step 1: regenerate

def regenerate():
    env = dict(os.environ)
    env["SELFIES_REPO"] = REPO
    env["PYTHONPATH"] = REPO
    env["PYTHONDONTWRITEBYTECODE"] = "1"
    p = subprocess.run([PY, os.path.join(HERE, "gen_tables.py")], stdout=subprocess.PIPE,
                       stderr=subprocess.PIPE, env=env, timeout=300)
    if p.returncode != 0:
        return None, p.stderr.decode()[-2000:]
    return json.loads(p.stdout.decode().strip().split("\n")[-1]), None


# ------------------------------------------------------------------ step 2: build

class LakeLock:
    def __enter__(self):
        os.makedirs(os.path.join(LEAN, ".lake"), exist_ok=True)
        self.f = open(os.path.join(LEAN, ".lake", "verif.lock"), "w")
        fcntl.flock(self.f, fcntl.LOCK_EX)
        return self

    def __exit__(self, *a):
        fcntl.flock(self.f, fcntl.LOCK_UN)
        self.f.close()


def lake_build(targets, timeout=3000):
    p = subprocess.run(["lake", "build"] + targets, cwd=LEAN, stdout=subprocess.PIPE,
                       stderr=subprocess.STDOUT, timeout=timeout)
    out = p.stdout.decode(errors="replace")
    return p.returncode == 0, out


def first_errors(build_output, limit=6):
    errs = []
    for line in build_output.split("\n"):
        if line.startswith("error:") or " error: " in line:
            errs.append(line.strip()[:400])
    return errs[:limit]


# ------------------------------------------------------------------ step 3: audit

def load_theorems():
    with open(os.path.join(LEAN, "PROPERTY_THEOREMS.json")) as f:
        return json.load(f)


def strip_comments(text):
    # remove /- ... -/ (nested not handled beyond one level) and -- comments
    text = re.sub(r"/-.*?-/", "", text, flags=re.S)
    text = re.sub(r"--.*", "", text)
    return text


def grep_forbidden(modules):
    hits = []
    for mod in modules:
        path = os.path.join(LEAN, mod.replace(".", "/") + ".lean")
        if not os.path.exists(path):
            continue
        with open(path, encoding="utf-8") as f:
            txt = strip_comments(f.read())
        for n, line in enumerate(txt.split("\n"), 1):
            if FORBIDDEN.search(line):
                hits.append("%s:%d: %s" % (mod, n, line.strip()[:120]))
    return hits


def all_lean_modules():
    mods = []
    for root, _d, files in os.walk(os.path.join(LEAN, "SelfiesVerif")):
        for fn in files:
            if fn.endswith(".lean"):
                rel = os.path.relpath(os.path.join(root, fn), LEAN)[:-5]
                mods.append(rel.replace(os.sep, "."))
    return sorted(mods)


def audit_axioms(prop, entry):
    """run `#print axioms` for every theorem of the property, one Lean file per module (modules of
    different properties are never imported together); returns (ok_names, broken[(name, why)])"""
    per = entry.get("per_module") or {}
    if not per and entry.get("theorems"):
        per = {m: [] for m in entry.get("modules", [])}
        per[entry["modules"][0]] = entry["theorems"]
    ok, broken = [], []
    for k, (mod, thms) in enumerate(sorted(per.items())):
        if not thms:
            continue
        src = "import %s\nopen SV\n" % mod + "".join("#print axioms %s\n" % t for t in thms)
        path = os.path.join(LEAN, ".lake", "Audit_%s_%d.lean" % (prop, k))
        with open(path, "w") as f:
            f.write(src)
        p = subprocess.run(["lake", "env", "lean", path], cwd=LEAN, stdout=subprocess.PIPE,
                           stderr=subprocess.STDOUT, timeout=1800)
        out = p.stdout.decode(errors="replace")
        found = {}
        for m in re.finditer(r"'(\S+)' depends on axioms: \[([^\]]*)\]", out, flags=re.S):
            found[m.group(1)] = {a.strip() for a in m.group(2).replace("\n", " ").split(",") if a.strip()}
        for m in re.finditer(r"'(\S+)' does not depend on any axioms", out):
            found[m.group(1)] = set()
        for t in thms:
            ax = None
            for cand in (t, "SV." + t, "SV.C18." + t):
                if cand in found:
                    ax = found[cand]
                    break
            if ax is None:
                hits = [v for kk, v in found.items() if kk.split(".")[-1] == t.split(".")[-1]]
                ax = hits[0] if hits else None
            if ax is None:
                why = "theorem missing or does not check"
                mm = re.search(r"error:[^\n]*", out)
                if mm:
                    why += ": " + mm.group(0)[:300]
                broken.append((t, why))
            elif not ax <= ALLOWED_AXIOMS:
                broken.append((t, "depends on axioms %s" % sorted(ax - ALLOWED_AXIOMS)))
            else:
                ok.append(t)
    return ok, broken


def leanchecker(modules, timeout=3000):
    p = subprocess.run(["lake", "env", "leanchecker"] + modules, cwd=LEAN, stdout=subprocess.PIPE,
                       stderr=subprocess.STDOUT, timeout=timeout)
    return p.returncode == 0, p.stdout.decode(errors="replace")[-1500:]


# ------------------------------------------------------------------ AST fingerprints

MODELLED_FILES = ["selfies/decoder.py", "selfies/encoder.py", "selfies/grammar_rules.py", "selfies/mol_graph.py",
                  "selfies/bond_constraints.py", "selfies/compatibility.py", "selfies/constants.py",
                  "selfies/utils/smiles_utils.py", "selfies/utils/selfies_utils.py",
                  "selfies/utils/matching_utils.py", "selfies/utils/encoding_utils.py"]


def fingerprints():
    fp = {}
    for rel in MODELLED_FILES:
        path = os.path.join(REPO, rel)
        try:
            with open(path, encoding="utf-8") as f:
                tree = ast.parse(f.read())
        except Exception as e:  # noqa
            fp[rel] = "unparseable: %s" % e
            continue
        for node in ast.walk(tree):
            if isinstance(node, (ast.FunctionDef, ast.ClassDef)):
                # drop docstrings
                body = node.body
                if body and isinstance(body[0], ast.Expr) and isinstance(getattr(body[0], "value", None), ast.Constant) \
                        and isinstance(body[0].value.value, str):
                    node.body = body[1:] or [ast.Pass()]
        for node in tree.body:
            if isinstance(node, ast.FunctionDef):
                fp["%s::%s" % (rel, node.name)] = hashlib.sha256(ast.dump(node).encode()).hexdigest()[:16]
            elif isinstance(node, ast.ClassDef):
                for sub in node.body:
                    if isinstance(sub, ast.FunctionDef):
                        fp["%s::%s.%s" % (rel, node.name, sub.name)] = hashlib.sha256(ast.dump(sub).encode()).hexdigest()[:16]
        top = [n for n in tree.body if not isinstance(n, (ast.FunctionDef, ast.ClassDef, ast.Import, ast.ImportFrom))]
        fp["%s::<module>" % rel] = hashlib.sha256("".join(ast.dump(n) for n in top).encode()).hexdigest()[:16]
    return fp


def changed_functions():
    base_path = os.path.join(HERE, "fingerprints.json")
    cur = fingerprints()
    if not os.path.exists(base_path):
        return [], cur
    with open(base_path) as f:
        base = json.load(f)
    changed = sorted(k for k in set(base) | set(cur) if base.get(k) != cur.get(k))
    return changed, cur


# ------------------------------------------------------------------ known findings

def load_known_findings():
    path = os.path.join(VERIF, "known_findings.json")
    with open(path) as f:
        return json.load(f)


# ------------------------------------------------------------------ replay / evidence / verdict

def write_replay(prop, payload):
    os.makedirs(os.path.join(VERIF, "replays"), exist_ok=True)
    blob = json.dumps(payload, sort_keys=True, ensure_ascii=True, default=str)
    h = hashlib.sha256(blob.encode()).hexdigest()[:12]
    rel = os.path.join("replays", "%s-%s.json" % (prop, h))
    with open(os.path.join(VERIF, rel), "w") as f:
        json.dump(payload, f, indent=1, sort_keys=True, ensure_ascii=True, default=str)
    return rel


def write_evidence(ctx, level, checker_cmd, extra=None):
    # evaluation runs against seeded (mutated) trees must not overwrite the committed evidence
    evdir = os.environ.get("VERIF_EVIDENCE_DIR") or os.path.join(VERIF, "evidence")
    os.makedirs(evdir, exist_ok=True)
    cov = {
        "evaluations": ctx.evaluations,
        "distinct_nontrivial": len(ctx.distinct),
        "rule": ctx.rule if hasattr(ctx, "rule") else "",
        "samples": ctx.samples[:12],
        "exhaustive": bool(ctx.exhaustive),
        "streams": ctx.streams,
        "distribution": ctx.distribution,
        "escalated_by_fingerprint": ctx.escalated,
        "not_proved": ctx.not_proved,
        "known_findings_replayed": ctx.known_hits,
        "trusted_base": TRUSTED_BASE,
        "checker_cmd": checker_cmd,
    }
    if ctx.obligations:
        cov["obligations"] = len(ctx.obligations)
        cov["discharged"] = len(ctx.discharged)
        cov["obligation_names"] = ctx.obligations
        cov["broken_obligations"] = ctx.broken
    if level == "other":
        cov["explanation"] = "; ".join(ctx.notes) or "correspondence between the executable Lean model and the implementation"
    if extra:
        cov.update(extra)
    ev = {
        "property_id": ctx.prop,
        "tier": ctx.tier,
        "seed": ctx.seed,
        "level": level,
        "coverage": cov,
        "assumptions": ctx.assumptions,
        "wall_s": round(ctx.elapsed(), 2),
        "violations": len(ctx.violations) + (1 if (ctx.broken or ctx.disagreements) and not ctx.violations else 0),
    }
    with open(os.path.join(evdir, "%s.json" % ctx.prop), "w") as f:
        json.dump(ev, f, indent=1, ensure_ascii=True, default=str)
    return ev
