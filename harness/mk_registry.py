#!/venv/bin/python
"""(Re)generate lean/PROPERTY_THEOREMS.json: for every property, the Lean modules to build and the
theorem names whose axioms are audited. Theorem names are read from the Props/Cxx.lean files; the
static part below lists extra modules/obligations and what is NOT proved."""
import json
import os
import re

HERE = os.path.dirname(os.path.abspath(__file__))
LEAN = os.path.join(os.path.dirname(HERE), "lean")
GEN = ["translator_no_fallback", "gen_next_atom_state_eq", "gen_next_branch_state_eq", "gen_next_ring_state_eq"]

STATIC = {
    "C01": {"use_props": ["C01w", "C01r"], "extra_modules": ["SelfiesVerif.Proofs.GenEq"], "extra_theorems": GEN,
            "not_proved": ["C01_ring_labels_legal (labels always in 1..99) is FALSE on the unchanged tree (finding F1: > 99 ring bonds); proved: C01w_labels_legal_partial (<= 99 ring bonds) and the structural overflow lemma C01w_label_overflow",
                           "C01r_reader_recovers (the library's own SMILES parser reads the output back as exactly the graph the decoder built) needs: <= 99 ring bonds and no ring bond joining two '.'-fragments (selfies' parser keeps ring labels per fragment: C01r_cross_fragment_ring_rejected; such output is legal SMILES and is judged by the independent reader of the harness)",
                           "external sanitizer clause: validated with RDKit, cannot be a theorem"]},
    "C02": {"use_props": ["C16"], "extra_modules": ["SelfiesVerif.Proofs.GenEq", "SelfiesVerif.Spec.DerivationExamples"], "extra_theorems": GEN,
            "not_proved": ["C02_decoder_eq at the SMILES-string level (no spec writer); the graph-level refinement C02_graph_eq_general is proved for every result other than RecursionError (finding F2)"]},
    "C03": {"use_props": ["C03p", "C01w"], "not_proved": ["C03p_roundtrip_strings is the string-level statement (hypotheses left: every ring span / branch length < 16^3, nesting depth < recursion budget, input length <= 10^4300); the last step from the decoded graph to the output SMILES string is C01w (writer = pre-order of the forest, atoms in index order) and is not composed with it into one theorem about the output string",
                                                   "aromatic inputs: kekulization is covered by C05 (sound given a perfect matching), not composed here"]},
    "C04": {"use_props": ["C03", "C10r"], "not_proved": ["C04_end_to_end (Props/C10r.lean) is the string-level statement; hypotheses as C03p_roundtrip_strings plus <= 99 rings"]},
    "C05": {"use_props": ["C05c", "C03p"], "not_proved": ["completeness is proved for BIPARTITE delocalisation subgraphs (all rings even: C05_bipartite_complete, C05_bipartite_decides, C05_kekulize_complete_bipartite); for non-bipartite systems it is false in general (finding F9) and decided by bounded search, as is atom-order independence",
                           "unconditional soundness of find_perfect_matching is FALSE (C05_soundness_false, finding F9); proved: sound on bipartite graphs, sound whenever every augmenting path found is simple, kekulize sound given a perfect matching",
                           ]},
    "C06": {}, "C07": {"use_props": ["C01", "C08"],
                       "not_proved": ["C07_atom_symbols_valid holds only for keys whose charge has at most 4300 digits (finding F10; proved exact: C07_atom_symbol_accepted_iff)"]},
    "C08": {"use_props": ["C18"], "not_proved": ["full-strength C08 (DecoderError only) is FALSE: RecursionError on deep nesting (finding F2); proved: C08_total_partial (ok / DecoderError / RecursionError only, every other failure branch unreachable, fuel suffices) and C08_no_recursion_error_if_shallow",
                                                  "the recursion threshold of the model (limit - 40) is approximate for the real interpreter"]},
    "C09": {"use_props": ["C06"], "not_proved": ["full-strength C09 (EncoderError only) is FALSE: RecursionError on deep nesting (finding F2, C09_recursionError_witness); proved: C09_total_partial (ok / EncoderError / RecursionError only, for every str, flags and every legal choice tape; every other failure branch unreachable, all loops terminate, also downstream of a non-matching: the F9 analysis) and C09_no_recursion_error_if_shallow",
                                                  "the choice tape must be legal (TapeOK: each entry is a member of the set it is popped from); the real set.pop() always is"]},
    "C10": {"use_props": ["C10r", "C16", "C03p", "C14e"], "not_proved": ["C10_reencode_stable is proved under: ring spans / branch lengths < 16^3, nesting depth < recursion budget, input length <= 10^4300, <= 99 ring bonds",
                                                  "C10_atom_symbol_accepted needs token length <= 10^4300 (C10_atom_symbol_length_bound_needed)"]},
    "C11": {"use_props": ["C12", "C19"], "not_proved": ["the decoder/encoder models take the table as a parameter; that the real translators read the table only through get_bonding_capacity is tied by the history correspondence and the fresh-interpreter oracle",
                                                         "cross-process determinism: observation only"]},
    "C12": {"not_proved": ["full privacy of the returned alphabet is FALSE on the unchanged tree (finding F7); C12_refines_value_map_partial excludes histories that mutate a returned alphabet"]},
    "C13": {}, "C14": {"use_props": ["C14e"]},
    "C15": {}, "C16": {"extra_modules": ["SelfiesVerif.Proofs.GenEq"], "extra_theorems": GEN},
    "C17": {"not_proved": ["'exactly the enclosing branch symbols' (C17_atom_attribution_partial proves: branch symbols at earlier, increasing positions, pushed by the enclosing calls) and 'exactly once' per atom",
                           "with compatible=True the reported token is the MODERNISED symbol, not the input symbol (C17_input_index_compat; negation example in Props/C17.lean, replayed on the real code)"]},
    "C18": {},
    "C19": {"not_proved": ["that every cross-call interaction of the real code goes through the modelled memo tables is an inventory re-derived from the source on every run, not a theorem",
                           "atomicity of CPython container operations is assumed"]},
}


def theorems(mod):
    path = os.path.join(LEAN, mod.replace(".", "/") + ".lean")
    if not os.path.exists(path):
        return []
    with open(path, encoding="utf-8") as f:
        s = f.read()
    s = re.sub(r"/-.*?-/", "", s, flags=re.S)
    return re.findall(r"^theorem\s+([A-Za-z0-9_'.]+)", s, flags=re.M)


def main():
    out = {}
    for p in sorted(STATIC):
        st = STATIC[p]
        mods = []
        thms = []
        per_module = {}
        own = "SelfiesVerif.Props.%s" % p
        for q in [p] + st.get("use_props", []):
            m = "SelfiesVerif.Props.%s" % q
            if os.path.exists(os.path.join(LEAN, m.replace(".", "/") + ".lean")):
                mods.append(m)
                per_module[m] = theorems(m)
                thms += per_module[m]
        mods += st.get("extra_modules", [])
        thms += st.get("extra_theorems", [])
        if st.get("extra_theorems"):
            per_module["SelfiesVerif.Proofs.GenEq"] = st["extra_theorems"]
        has_own = os.path.exists(os.path.join(LEAN, own.replace(".", "/") + ".lean"))
        e = {"modules": mods, "theorems": thms, "per_module": per_module, "not_proved": st.get("not_proved", []),
             "own_theorems": len(theorems(own)) if has_own else 0}
        e["level"] = "proof" if has_own else "other"
        out[p] = e
    with open(os.path.join(LEAN, "PROPERTY_THEOREMS.json"), "w") as f:
        json.dump(out, f, indent=1)
    print({k: (v["own_theorems"], len(v["theorems"])) for k, v in out.items()})


if __name__ == "__main__":
    main()
