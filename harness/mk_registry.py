#!/venv/bin/python
"""(Re)generate lean/PROPERTY_THEOREMS.json: for every property, the Lean modules to build and the
theorem names whose axioms are audited. Theorem names are read from the Props/Cxx.lean files; the
static part below lists extra modules/obligations and what is NOT proved."""
import json
import os
import re

HERE = os.path.dirname(os.path.abspath(__file__))
LEAN = os.path.join(os.path.dirname(HERE), "lean")
GEN = ["translator_no_fallback", "gen_next_atom_state_eq", "gen_next_branch_state_eq", "gen_next_ring_state_eq"]

STATIC = {
    "C01": {"extra_modules": ["SelfiesVerif.Proofs.GenEq"], "extra_theorems": GEN,
            "not_proved": ["writer level (balanced parentheses, ring labels paired, reader recovers the graph): correspondence + independent reader only",
                           "C01_ring_labels_legal is FALSE on the unchanged tree (finding F1: > 99 ring bonds)",
                           "external sanitizer clause: validated with RDKit, cannot be a theorem"]},
    "C02": {"use_props": ["C01", "C16"], "extra_modules": ["SelfiesVerif.Proofs.GenEq"], "extra_theorems": GEN,
            "not_proved": ["C02_impl_eq_spec (Model.decoder = independent Spec.decoder): the independent rendering of derivation.rst is not written yet; the tie is exhaustive small-scope correspondence of the code with the model"]},
    "C03": {"use_props": ["C01", "C16", "C04"], "not_proved": ["C03_decode_encode (decodeGraph (encodeGraph g) = ringsFirst g): not proved; correspondence + independent index-wise comparison only"]},
    "C04": {"not_proved": ["decoder-side half (formRings + writer realise decoderOrder on encoder output), i.e. the end-to-end handedness theorem, depends on C03_decode_encode"]},
    "C05": {"not_proved": ["C05_kekulize_sound, greedy/flip validity, completeness, order independence: not proved; exhaustive small-graph correspondence with every recorded tape, brute force, and per-spelling round-trip judgement"]},
    "C06": {}, "C07": {"use_props": ["C01"]},
    "C08": {"use_props": ["C01", "C18"], "not_proved": ["C08_total (no exception other than DecoderError): not proved; false without hypotheses (finding F2)"]},
    "C09": {"not_proved": ["C09_total: not proved; false without hypotheses (finding F2)"]},
    "C10": {"use_props": ["C16"], "not_proved": ["C10_reencode_stable: not proved (needs C03_decode_encode and the writer/parser round trip)"]},
    "C11": {"use_props": ["C12"], "not_proved": ["the decoder/encoder models take the table as a parameter; that the real translators read the table only through get_bonding_capacity is tied by the history correspondence and the fresh-interpreter oracle",
                                                  "cross-process determinism: observation only"]},
    "C12": {"not_proved": ["full privacy of the returned alphabet is FALSE on the unchanged tree (finding F7); C12_refines_value_map_partial excludes histories that mutate a returned alphabet"]},
    "C13": {}, "C14": {"not_proved": ["C14_encoder_output_wf: correspondence + oracle only"]},
    "C15": {}, "C16": {"extra_modules": ["SelfiesVerif.Proofs.GenEq"], "extra_theorems": GEN},
    "C17": {"not_proved": ["attribution theorems not proved yet; correspondence of the full attribution lists + truthfulness oracles"]},
    "C18": {},
    "C19": {"not_proved": ["that every cross-call interaction of the real code goes through the modelled memo tables is an inventory re-derived from the source on every run, not a theorem",
                           "atomicity of CPython container operations is assumed"]},
}


def theorems(mod):
    path = os.path.join(LEAN, mod.replace(".", "/") + ".lean")
    if not os.path.exists(path):
        return []
    with open(path, encoding="utf-8") as f:
        s = f.read()
    s = re.sub(r"/-.*?-/", "", s, flags=re.S)
    return re.findall(r"^theorem\s+([A-Za-z0-9_'.]+)", s, flags=re.M)


def main():
    out = {}
    for p in sorted(STATIC):
        st = STATIC[p]
        mods = []
        thms = []
        own = "SelfiesVerif.Props.%s" % p
        for q in [p] + st.get("use_props", []):
            m = "SelfiesVerif.Props.%s" % q
            if os.path.exists(os.path.join(LEAN, m.replace(".", "/") + ".lean")):
                mods.append(m)
                thms += theorems(m)
        mods += st.get("extra_modules", [])
        thms += st.get("extra_theorems", [])
        has_own = os.path.exists(os.path.join(LEAN, own.replace(".", "/") + ".lean"))
        e = {"modules": mods, "theorems": thms, "not_proved": st.get("not_proved", []),
             "own_theorems": len(theorems(own)) if has_own else 0}
        e["level"] = "proof" if has_own else "other"
        out[p] = e
    with open(os.path.join(LEAN, "PROPERTY_THEOREMS.json"), "w") as f:
        json.dump(out, f, indent=1)
    print({k: (v["own_theorems"], len(v["theorems"])) for k, v in out.items()})


if __name__ == "__main__":
    main()
