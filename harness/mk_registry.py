#!/venv/bin/python
"""(Re)generate lean/PROPERTY_THEOREMS.json: for every property, the Lean modules to build and the
theorem names whose axioms are audited. Theorem names are read from the Props/Cxx.lean files; the
static part below lists extra modules/obligations and what is NOT proved."""
import json
import os
import re

HERE = os.path.dirname(os.path.abspath(__file__))
LEAN = os.path.join(os.path.dirname(HERE), "lean")
GEN = ["translator_no_fallback", "gen_next_atom_state_eq", "gen_next_branch_state_eq", "gen_next_ring_state_eq"]
# tie (a): code regenerated from the source on every run and proved equal to the hand model (Proofs/GenEq*.lean)
GENMODS = {
    "GenEq": GEN,
    "GenEq2": ["translator_no_fallback_index", "gen_get_index_from_selfies_eq", "gen_get_selfies_from_index_eq",
               "gen_get_selfies_from_index_terminates", "gen_index_roundtrip"],
    "GenEq3": ["translator_no_fallback_capacity", "gen_get_bonding_capacity_eq", "gen_Atom_bonding_capacity_eq",
               "gen_Atom_bonding_capacity_eq_raw", "gen_get_bonding_capacity_error"],
    "GenEq4": ["translator_no_fallback_read_index", "gen_read_index_from_selfies_eq"],
    "GenEq5": ["translator_no_fallback_encoding", "gen_encoding_to_selfies_eq"],
    "GenEq6": ["gen_selfies_to_encoding_eq"],
    # (translator_no_fallback_util is deliberately NOT an obligation: Proofs/GenEq7nf.lean)
    "GenEq7": ["gen_len_selfies_eq", "gen_get_alphabet_from_selfies_eq"],
    "GenEq8": ["gen_split_selfies_eq", "while1_eq", "gen_get_alphabet_from_selfies_closed_eq"],
}

STATIC = {
    "C01": {"use_props": ["C01w", "C01r"], "gen": ["GenEq", "GenEq3"],
            "not_proved": ["C01_ring_labels_legal (labels always in 1..99) is FALSE on the unchanged tree (finding F1: > 99 ring bonds); proved: C01w_labels_legal_partial (<= 99 ring bonds) and the structural overflow lemma C01w_label_overflow",
                           "C01r_reader_recovers (the library's own SMILES parser reads the output back as exactly the graph the decoder built) needs: <= 99 ring bonds and no ring bond joining two '.'-fragments (selfies' parser keeps ring labels per fragment: C01r_cross_fragment_ring_rejected; such output is legal SMILES and is judged by the independent reader of the harness)",
                           "external sanitizer clause: validated with RDKit, cannot be a theorem",
                           "'decoder returns' fails for nesting deeper than the recursion budget (residual finding F2r): the C01 theorems speak about every RETURNED result"]},
    "C02": {"use_props": ["C16", "C02s"], "gen": ["GenEq", "GenEq2", "GenEq4"], "extra_modules": ["SelfiesVerif.Spec.DerivationExamples"],
            "not_proved": ["C02s_decoder_eq_spec_string / C02s_api_outcomes (Props/C02s.lean): the returned STRING is the structural rendering of the molecule of Spec/Derivation.lean, and rejection coincides with the grammar's, unless the body exhausts the stack (the spec has no recursion limit; since the repair of F2 the API function then raises DecoderError: C02s_api_reject_iff)"]},
    "C03": {"use_props": ["C03p", "C01w", "C03s", "C05e"], "not_proved": ["C03s_roundtrip_parsed / C03s_bonds_iff (Props/C03s.lean) state the round trip on the OUTPUT STRING: the library's parser reads decoder(encoder(s)) back with the same atoms and the same bonds as the prepared graph of s; hypotheses left: every ring span / branch length < 16^3, nesting depth < recursion budget, input length <= 10^4300, <= 99 ring bonds",
                                                   "aromatic inputs: C05e_aromatic_end_to_end composes parser, kekulization and round trip; 'the matching returned is perfect' is derived on bipartite delocalisation subgraphs and an explicit hypothesis otherwise (finding F9)"]},
    "C04": {"use_props": ["C03", "C10r", "C04h", "C04k"], "not_proved": ["C04_handedness_preserved / C04_marks_preserved (Props/C04h.lean) state the property in semantic form on the two parsed graphs (handedness = tag xor parity of the neighbour order); hypotheses as C03p_roundtrip_strings plus <= 99 rings",
                                                  "C04_marks_preserved_all / C04_every_mark_found_again (Props/C04k.lean) drop the guard of C04_marks_preserved: kekulization touches only aromatic bonds (C05_sigma_skeleton_unconditional, from the invariant that find_perfect_matching - sound or not - pairs only adjacent vertices), so every '/' and '\\' mark of the input is found again, for aromatic and non-aromatic input alike"]},
    "C05": {"use_props": ["C05c", "C03p", "C05e", "C05k"], "not_proved": ["completeness is proved for BIPARTITE delocalisation subgraphs (all rings even: C05_bipartite_complete, C05_bipartite_decides, C05_kekulize_complete_bipartite); for non-bipartite systems it is false in general (finding F9) and decided by bounded search, as is atom-order independence",
                           "unconditional soundness of find_perfect_matching is FALSE (C05_soundness_false, finding F9); proved: sound on bipartite graphs, sound whenever every augmenting path found is simple, kekulize sound given a perfect matching; UNCONDITIONALLY (also on the unsound runs): the result pairs only adjacent vertices (C05_matching_edges), hence the sigma skeleton, hydrogens, charges and every non-aromatic bond are unchanged and every aromatic bond becomes single or double (C05_sigma_skeleton_unconditional, C05_sigma_skeleton_end_to_end); only the 'exactly one double bond per atom that needs one' clause needs the matching to be perfect (C05_one_double_needs_matching)",
                           ]},
    "C06": {"gen": ["GenEq3"]}, "C07": {"use_props": ["C01", "C08", "C07f"], "gen": ["GenEq3"],
                       "not_proved": ["C07_no_error: a string over the alphabet nested deeper than the recursion budget is rejected (residual finding F2r; C08_deep_nesting_rejected); proved without exception below the budget: C07_no_error_shallow"]},
    "C08": {"use_props": ["C18", "C08t"], "not_proved": ["C08_total (Props/C08t.lean) is the full-strength statement for the API function as repaired (F2: try/except RecursionError -> DecoderError, model Model/Api.lean decoderApi); the recursion threshold of the model (limit - 40) is approximate for the real interpreter, the band near it is not compared"]},
    "C09": {"use_props": ["C06", "C08t"], "not_proved": ["C09_total (Props/C08t.lean) is the full-strength statement for the repaired API function (encoderApi); it needs a legal choice tape (TapeOK: each entry is a member of the set it is popped from); the real set.pop() always is"]},
    "C10": {"use_props": ["C10r", "C16", "C03p", "C14e"], "gen": ["GenEq2"], "not_proved": ["C10_reencode_stable is proved under: ring spans / branch lengths < 16^3, nesting depth < recursion budget, input length <= 10^4300, <= 99 ring bonds",
                                                  "C10_atom_symbol_accepted needs token length <= 10^4300 (C10_atom_symbol_length_bound_needed)"]},
    "C11": {"use_props": ["C12", "C19", "C11t"], "gen": ["GenEq3"],
            "not_proved": ["C11t_translators_pure / C11t_history_independent (Props/C11t.lean): after any history the translators, reading capacities through the cache, return what they return for the current table; that the REAL translators reach the table only through get_bonding_capacity / Atom.bonding_capacity (translated from the source and proved equal to the model: GenEq3) is tied by the history correspondence and the fresh-interpreter oracle",
                                                         "cross-process determinism: observation only"]},
    "C12": {"not_proved": ["full privacy of the returned alphabet is FALSE on the unchanged tree (finding F7); C12_refines_value_map_partial excludes histories that mutate a returned alphabet"]},
    "C13": {"use_props": ["C13p"]}, "C14": {"use_props": ["C14e"], "gen": ["GenEq7", "GenEq8"]},
    "C15": {"gen": ["GenEq5", "GenEq6"]}, "C16": {"gen": ["GenEq", "GenEq2", "GenEq4"]},
    "C17": {"use_props": ["C17x"],
            "not_proved": ["with compatible=True the reported token is the MODERNISED symbol, not the input symbol (C17_input_index_compat; negation example in Props/C17.lean, replayed on the real code)",
                           "C17_atom_attribution_exact / C17_made_once (Props/C17x.lean) state 'exactly the enclosing branch symbols' and 'exactly once' with Encloses defined on an attribution-free walk of the derivation (tied to Spec.derive by C17_walk_is_spec_derive); not proved: that the sym of a span enclosing NO atom is a branch symbol by Spec.classify (for spans on some atom's stack C17_atom_attribution_partial gives it)"]},
    "C18": {},
    "C19": {"not_proved": ["that every cross-call interaction of the real code goes through the modelled memo tables is an inventory re-derived from the source on every run, not a theorem",
                           "atomicity of CPython container operations is assumed"]},
}


def theorems(mod):
    """theorem names of a module, qualified by the namespaces (other than SV) they are declared in"""
    path = os.path.join(LEAN, mod.replace(".", "/") + ".lean")
    if not os.path.exists(path):
        return []
    with open(path, encoding="utf-8") as f:
        s = f.read()
    s = re.sub(r"/-.*?-/", "", s, flags=re.S)
    out, stack = [], []
    for line in s.split("\n"):
        m = re.match(r"^namespace\s+([A-Za-z0-9_'.]+)", line)
        if m:
            stack.append(m.group(1))
            continue
        m = re.match(r"^end\s+([A-Za-z0-9_'.]+)\s*$", line)
        if m and stack and stack[-1] == m.group(1):
            stack.pop()
            continue
        m = re.match(r"^(?:protected\s+|private\s+)?theorem\s+([A-Za-z0-9_'.?!]+)", line)
        if m:
            ns = [x for x in stack if x != "SV"]
            ns = [x[3:] if x.startswith("SV.") else x for x in ns]
            out.append(".".join(ns + [m.group(1)]))
    return out


def main():
    out = {}
    for p in sorted(STATIC):
        st = STATIC[p]
        mods = []
        thms = []
        per_module = {}
        own = "SelfiesVerif.Props.%s" % p
        for q in [p] + st.get("use_props", []):
            m = "SelfiesVerif.Props.%s" % q
            if os.path.exists(os.path.join(LEAN, m.replace(".", "/") + ".lean")):
                mods.append(m)
                per_module[m] = theorems(m)
                thms += per_module[m]
        for g in st.get("gen", []):
            m = "SelfiesVerif.Proofs." + g
            mods.append(m)
            per_module[m] = list(GENMODS[g])
            thms += GENMODS[g]
        mods += st.get("extra_modules", [])
        has_own = os.path.exists(os.path.join(LEAN, own.replace(".", "/") + ".lean"))
        e = {"modules": mods, "theorems": thms, "per_module": per_module, "not_proved": st.get("not_proved", []),
             "own_theorems": len(theorems(own)) if has_own else 0}
        e["level"] = "proof" if has_own else "other"
        out[p] = e
    with open(os.path.join(LEAN, "PROPERTY_THEOREMS.json"), "w") as f:
        json.dump(out, f, indent=1)
    print({k: (v["own_theorems"], len(v["theorems"])) for k, v in out.items()})


if __name__ == "__main__":
    main()
