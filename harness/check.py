#!/venv/bin/python
"""Entry point of every registered check:

    /venv/bin/python harness/check.py --property Cxx --tier quick|thorough

exit 0  the property held on everything explored (KNOWN-FINDING lines may be printed)
exit 1  `VIOLATION property=Cxx replay=<path>` (with a concrete failing input in the replay file), or
        `VIOLATION property=Cxx replay=<path> no-failing-input-found` when a proof obligation or the
        model/implementation correspondence broke and the search found no failing input
exit 2  infrastructure problem / timeout (never a VIOLATION line)
"""
import argparse
import json
import os
import random
import sys
import traceback

HERE = os.path.dirname(os.path.abspath(__file__))
sys.path.insert(0, HERE)
os.environ.setdefault("PYTHONDONTWRITEBYTECODE", "1")
sys.dont_write_bytecode = True

import core  # noqa: E402


def main():
    ap = argparse.ArgumentParser()
    ap.add_argument("--property", required=True)
    ap.add_argument("--tier", default=os.environ.get("VERIF_TIER", "quick"), choices=["quick", "thorough"])
    args = ap.parse_args()
    prop = args.property
    try:
        seed = int(os.environ.get("VERIF_SEED", "0"))
    except ValueError:
        seed = 0
    ctx = core.Ctx(prop, args.tier, seed)
    try:
        rc = run(ctx)
    except SystemExit:
        raise
    except Exception:
        traceback.print_exc()
        print("INFRASTRUCTURE-ERROR property=%s" % prop)
        sys.exit(2)
    sys.exit(rc)


def run(ctx):
    prop = ctx.prop
    theorems = core.load_theorems()
    entry = theorems.get(prop, {"modules": [], "theorems": []})
    level = entry.get("level", "proof" if entry.get("theorems") else "other")
    checker_cmd = "cd lean && lake build %s && lake env lean .lake/Audit_%s.lean  (#print axioms)" % (
        " ".join(entry.get("modules", [])) or "selfies_model", prop)
    model_ok = True
    with core.LakeLock():
        gen, err = core.regenerate()
        if gen is None:
            # the translator cannot even import the code: every obligation is open
            ctx.broken.append(("translator", "gen_tables.py failed: %s" % (err or "")[-600:]))
            gen = {"state_fns": {}}
        ctx.translator = gen
        for name, info in gen.get("state_fns", {}).items():
            if not info.get("ok"):
                ctx.notes.append("translator fallback for %s: %s" % (name, info.get("reason")))
        ok, out = core.lake_build(["selfies_model"])
        if not ok:
            model_ok = False
            ctx.broken.append(("model-driver", "the executable model no longer builds against the regenerated tables: "
                               + " | ".join(core.first_errors(out))))
        mods = entry.get("modules", [])
        ctx.obligations = list(entry.get("theorems", [])) + list(entry.get("side_conditions", []))
        ctx.not_proved = entry.get("not_proved", [])
        if mods:
            ok, out = core.lake_build(mods)
            if not ok:
                errs = core.first_errors(out)
                ctx.broken.append(("lake build " + " ".join(mods), " | ".join(errs)))
            hits = core.grep_forbidden(core.all_lean_modules())
            for h in hits:
                ctx.broken.append(("forbidden construct", h))
            good, bad = core.audit_axioms(prop, entry)
            ctx.discharged = good + [s for s in entry.get("side_conditions", []) if ok]
            for b in bad:
                ctx.broken.append(b)
            if ctx.tier == "thorough" and ok:
                okc, outc = core.leanchecker(mods)
                if not okc:
                    ctx.broken.append(("leanchecker", outc[-400:]))
                else:
                    ctx.notes.append("leanchecker re-checked " + " ".join(mods))
    changed, _cur = core.changed_functions()
    import props  # noqa: E402  (imports the real selfies from /repo)
    anchors = props.ANCHORS.get(prop, [])
    ctx.escalated = [c for c in changed if any(c.startswith(a) for a in anchors)]
    rt = props.Runtime(ctx, model_ok)
    fn = props.REGISTRY.get(prop)
    if fn is None:
        print("unknown property %s" % prop)
        return 2
    try:
        fn(ctx, rt)
    except Exception as e:  # noqa
        # an exception that comes out of the library itself while the property is being evaluated is a symptom
        # (the property's predicates only call documented API on inputs of the property's domain); anything else
        # is an infrastructure error of the harness
        import traceback as _tb
        frames = _tb.extract_tb(e.__traceback__)
        lib = [f for f in frames if os.path.realpath(f.filename).startswith(os.path.realpath(core.REPO) + os.sep)]
        if not lib:
            raise
        where = "%s:%d in %s" % (os.path.relpath(lib[-1].filename, core.REPO), lib[-1].lineno, lib[-1].name)
        caller = [f for f in frames if f.filename.startswith(HERE)]
        ctx.violations.append({"sig": "%s:library-raised:%s" % (prop, type(e).__name__),
                               "what": "the library raised %s (%s) at %s while the property was evaluated on an input of its domain"
                                       % (type(e).__name__, str(e)[:200], where),
                               "harness_line": "%s:%d" % (os.path.basename(caller[-1].filename), caller[-1].lineno) if caller else None,
                               "traceback": _tb.format_exc()[-1500:]})
        try:
            props.restore_default()
        except Exception:
            pass
    # known findings for this property
    kf = core.load_known_findings()
    uncovered = props.apply_known_findings(ctx, rt, kf)
    # ---- verdict
    rc = 0
    for fid, what in ctx.known_hits:
        print("KNOWN-FINDING: property=%s %s" % (prop, what))
    if uncovered:
        v = uncovered[0]
        rel = core.write_replay(prop, {"property": prop, "kind": "violation", "violation": v,
                                       "others": uncovered[1:6], "tier": ctx.tier, "seed": ctx.seed})
        print("VIOLATION property=%s replay=%s" % (prop, rel))
        rc = 1
    elif ctx.broken or ctx.disagreements:
        payload = {"property": prop, "kind": "no-failing-input-found", "tier": ctx.tier, "seed": ctx.seed,
                   "broken_obligations": ctx.broken[:10],
                   "correspondence_disagreements": [
                       {"stream": d[0], "request": d[1], "model": d[2], "implementation": d[3], "input": d[4]}
                       for d in ctx.disagreements[:10]],
                   "search": ctx.streams}
        rel = core.write_replay(prop, payload)
        print("VIOLATION property=%s replay=%s no-failing-input-found" % (prop, rel))
        rc = 1
    ctx.violations = uncovered
    core.write_evidence(ctx, level, checker_cmd)
    print("%s %s tier=%s seed=%d evaluations=%d distinct=%d obligations=%d/%d wall=%.1fs" % (
        "PASS" if rc == 0 else "FAIL", prop, ctx.tier, ctx.seed, ctx.evaluations, len(ctx.distinct),
        len(ctx.discharged), len(ctx.obligations), ctx.elapsed()))
    return rc


if __name__ == "__main__":
    main()
