#!/venv/bin/python
"""Robustness test of tie (a), wider subset (py2lean.py part 3 + Proofs/GenEq2..4.lean).

For every case: reset a scratch worktree of /repo, apply a change, regenerate lean/SelfiesVerif/Generated
from the worktree (with THIS copy of the harness), build the GenEq modules and compare with what is expected:

  harmless     translation succeeds (no fallback) and all GenEq modules build
  breaking     translation succeeds and at least one `gen_*_eq` proof fails to build
  fallback     the functions fall back; the only errors are the `translator_no_fallback_*` theorems

Afterwards the worktree is removed and the generated files are regenerated from /repo.
Usage: run_tests.py [case ...]        (prints one line per case and a JSON summary as the last line)
"""
import json
import os
import re
import subprocess
import sys
import time

HERE = os.path.dirname(os.path.abspath(__file__))
HARNESS = os.path.dirname(HERE)
VERIF = os.path.dirname(HARNESS)
LEAN = os.path.join(VERIF, "lean")
REPO = os.environ.get("SELFIES_REPO", "/repo")
WT = os.environ.get("PF_TRANS_WT", "/tmp/pf_trans_wt")
PY = "/venv/bin/python"
MODS = ["SelfiesVerif.Proofs.GenEq", "SelfiesVerif.Proofs.GenEq2", "SelfiesVerif.Proofs.GenEq3",
        "SelfiesVerif.Proofs.GenEq4"]

# (file, old text, new text): small seeded defects, one per case
EDITS = {
    "M1-no-reverse": ("selfies/grammar_rules.py", "    return symbols[::-1]", "    return symbols"),
    "M2-clamp": ("selfies/mol_graph.py", "        return bond_cap\n", "        return max(0, bond_cap)\n"),
    "M3-format-no-plus": ("selfies/bond_constraints.py", '"{:+}".format(charge)', '"{}".format(charge)'),
    "M4-base-minus-1": ("selfies/grammar_rules.py", "(len(INDEX_CODE) ** i)", "((len(INDEX_CODE) - 1) ** i)"),
    "M5-mod-swapped": ("selfies/grammar_rules.py",
                       "symbols.append(INDEX_ALPHABET[index % base])\n        index //= base",
                       "index //= base\n        symbols.append(INDEX_ALPHABET[index % base])"),
    "M6-zero-special": ("selfies/grammar_rules.py", "    elif index == 0:\n        return [INDEX_ALPHABET[0]]\n",
                        "    elif index == 0:\n        return []\n"),
    "M7-nread-always": ("selfies/decoder.py", "            index_symbols.append(None)\n",
                        "            index_symbols.append(None)\n            n_read += 1\n"),
    "M8-hcount-plus": ("selfies/mol_graph.py", "bond_cap -= 0 if", "bond_cap += 0 if"),
    "M9-qmark-first": ("selfies/bond_constraints.py",
                       '    if key in _current_constraints:\n        return _current_constraints[key]\n'
                       '    else:\n        return _current_constraints["?"]',
                       '    dflt = _current_constraints["?"]\n    return _current_constraints.get(key, dflt)'),
    "M10-neg-valueerror": ("selfies/grammar_rules.py", "        raise IndexError()", "        raise ValueError()"),
}
CASES = [
    ("pristine", "harmless", None),
    ("h1", "harmless", os.path.join(VERIF, "seeded/harmless/h1/patch.diff")),
    ("h5", "harmless", os.path.join(VERIF, "seeded/harmless/h5/patch.diff")),
    ("h3", "harmless", os.path.join(VERIF, "seeded/harmless/h3/patch.diff")),
    ("h6", "harmless", os.path.join(VERIF, "seeded/harmless/h6/patch.diff")),
    ("variants", "harmless", os.path.join(HERE, "harmless_variants.diff")),
    ("C16-horner-skip-unknown", "breaking", os.path.join(VERIF, "seeded/C16-horner-skip-unknown/patch.diff")),
    ("C16-missing-index-break", "breaking", os.path.join(VERIF, "seeded/C16-missing-index-break/patch.diff")),
    ("C07-capacity-get-or", "breaking", os.path.join(VERIF, "seeded/C07-capacity-get-or/patch.diff")),
] + [(m, "breaking", m) for m in EDITS] + [
    ("forced-fallback", "fallback", os.path.join(HERE, "forced_fallback.diff")),
]


def sh(cmd, **kw):
    return subprocess.run(cmd, shell=isinstance(cmd, str), stdout=subprocess.PIPE, stderr=subprocess.STDOUT,
                          text=True, **kw)


def regenerate(repo):
    env = dict(os.environ, SELFIES_REPO=repo, PYTHONPATH=repo, PYTHONDONTWRITEBYTECODE="1")
    p = subprocess.run([PY, os.path.join(HARNESS, "gen_tables.py")], env=env, stdout=subprocess.PIPE,
                       stderr=subprocess.PIPE, text=True)
    if p.returncode != 0:
        raise RuntimeError(p.stderr[-2000:])
    return json.loads(p.stdout.strip().split("\n")[-1])


def build():
    t = time.time()
    out = sh("cd %s && lake build %s" % (LEAN, " ".join(MODS))).stdout
    errs = []
    for m in re.finditer(r"^error: (SelfiesVerif/\S+?):(\d+):\d+: (.*)$", out, flags=re.M):
        errs.append((m.group(1), int(m.group(2)), m.group(3)))
    return errs, time.time() - t, out


def theorem_at(path, line):
    """name of the theorem / example that contains the line"""
    with open(os.path.join(LEAN, path), encoding="utf-8") as f:
        lines = f.read().split("\n")
    for i in range(min(line, len(lines)) - 1, -1, -1):
        m = re.match(r"^(?:private )?(theorem|example|def|macro)\s*([A-Za-z0-9_'.]*)", lines[i])
        if m:
            return m.group(2) or "example@%d" % (i + 1)
    return "?"


def main():
    want = sys.argv[1:]
    sh(["git", "-C", REPO, "worktree", "remove", "--force", WT])
    r = sh(["git", "-C", REPO, "worktree", "add", "--detach", WT, "HEAD"])
    if r.returncode != 0:
        print(r.stdout)
        return 2
    summary = {}
    try:
        for name, kind, change in CASES:
            if want and name not in want:
                continue
            sh(["git", "-C", WT, "checkout", "-q", "--", "."])
            if change in EDITS:
                f, a, b = EDITS[change]
                p = os.path.join(WT, f)
                with open(p, encoding="utf-8") as fh:
                    s = fh.read()
                assert a in s, name
                with open(p, "w", encoding="utf-8") as fh:
                    fh.write(s.replace(a, b, 1))
            elif change:
                r = sh(["git", "-C", WT, "apply", change])
                assert r.returncode == 0, (name, r.stdout)
            gen = regenerate(WT)
            fallbacks = {k: v.get("reason") for k, v in gen["state_fns"].items() if not v["ok"]}
            errs, secs, _ = build()
            failing = sorted({theorem_at(p, l) for p, l, _ in errs})
            only_nofb = bool(failing) and all(t.startswith("translator_no_fallback") for t in failing)
            if kind == "harmless":
                ok = not fallbacks and not errs
            elif kind == "breaking":
                ok = not fallbacks and any(re.match(r"gen_.*_eq", t) or t == "while_spec" for t in failing)
            else:
                ok = bool(fallbacks) and only_nofb
            summary[name] = {"kind": kind, "as_expected": ok, "fallbacks": fallbacks, "failing": failing,
                             "build_seconds": round(secs, 1)}
            print("%-28s %-9s %-4s fallbacks=%s failing=%s (%.1fs)" % (
                name, kind, "OK" if ok else "BAD", sorted(fallbacks), failing, secs))
            sys.stdout.flush()
    finally:
        sh(["git", "-C", REPO, "worktree", "remove", "--force", WT])
        regenerate(REPO)
        errs, secs, _ = build()
        print("restored from %s: %d errors (%.1fs)" % (REPO, len(errs), secs))
    print(json.dumps(summary))
    return 0 if all(v["as_expected"] for v in summary.values()) else 1


if __name__ == "__main__":
    sys.exit(main())
