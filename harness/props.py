"""Property-specific correspondence streams and failing-input searches (DESIGN §7).

Each `check_Cxx(ctx, rt)`:
  * runs the real implementation and the compiled Lean model on the same inputs (tie b) and records
    every disagreement in ctx.disagreements;
  * evaluates the property's own predicate on the REAL implementation's results (the search for a
    concrete failing input); hits go to ctx.violations as dicts with a narrow `sig`nature;
  * fills ctx.evaluations / ctx.distinct / ctx.samples / ctx.distribution.
"""
import itertools
import os
import random
import sys
import time
import warnings

HERE = os.path.dirname(os.path.abspath(__file__))
sys.path.insert(0, HERE)

import impl  # noqa: E402   (imports the real selfies from /repo)
import gens  # noqa: E402
import oracles  # noqa: E402
from modelio import Model, enc, dec, enc_dict, sendable  # noqa: E402

sf = impl.sf

# which source functions each property is anchored in (prefixes of fingerprint keys)
ANCHORS = {
    "C01": ["selfies/decoder.py", "selfies/grammar_rules.py", "selfies/mol_graph.py", "selfies/utils/smiles_utils.py::mol_to_smiles",
            "selfies/utils/smiles_utils.py::_derive_smiles", "selfies/utils/smiles_utils.py::atom_to_smiles",
            "selfies/utils/smiles_utils.py::bond_to_smiles", "selfies/bond_constraints.py::get_bonding_capacity"],
    "C02": ["selfies/decoder.py", "selfies/grammar_rules.py", "selfies/constants.py", "selfies/utils/selfies_utils.py"],
    "C03": ["selfies/encoder.py", "selfies/utils/smiles_utils.py", "selfies/mol_graph.py", "selfies/decoder.py", "selfies/grammar_rules.py"],
    "C04": ["selfies/encoder.py", "selfies/decoder.py", "selfies/mol_graph.py", "selfies/utils/smiles_utils.py", "selfies/grammar_rules.py"],
    "C05": ["selfies/mol_graph.py", "selfies/utils/matching_utils.py", "selfies/utils/smiles_utils.py", "selfies/constants.py", "selfies/encoder.py"],
    "C06": ["selfies/encoder.py", "selfies/mol_graph.py", "selfies/bond_constraints.py"],
    "C07": ["selfies/bond_constraints.py", "selfies/grammar_rules.py", "selfies/decoder.py", "selfies/constants.py"],
    "C08": ["selfies/decoder.py", "selfies/utils/selfies_utils.py", "selfies/grammar_rules.py", "selfies/compatibility.py", "selfies/utils/smiles_utils.py"],
    "C09": ["selfies/encoder.py", "selfies/utils/smiles_utils.py", "selfies/mol_graph.py", "selfies/grammar_rules.py", "selfies/utils/matching_utils.py"],
    "C10": ["selfies/encoder.py", "selfies/grammar_rules.py", "selfies/utils/smiles_utils.py", "selfies/decoder.py"],
    "C11": ["selfies/bond_constraints.py", "selfies/grammar_rules.py", "selfies/mol_graph.py", "selfies/decoder.py", "selfies/encoder.py"],
    "C12": ["selfies/bond_constraints.py"],
    "C13": ["selfies/decoder.py", "selfies/utils/encoding_utils.py", "selfies/utils/selfies_utils.py"],
    "C14": ["selfies/utils/selfies_utils.py", "selfies/decoder.py", "selfies/encoder.py"],
    "C15": ["selfies/utils/encoding_utils.py", "selfies/utils/selfies_utils.py"],
    "C16": ["selfies/grammar_rules.py", "selfies/constants.py", "selfies/decoder.py"],
    "C17": ["selfies/decoder.py", "selfies/encoder.py", "selfies/mol_graph.py", "selfies/utils/smiles_utils.py"],
    "C18": ["selfies/compatibility.py", "selfies/decoder.py"],
    "C19": ["selfies/grammar_rules.py", "selfies/bond_constraints.py", "selfies/mol_graph.py", "selfies/decoder.py"],
}


class Runtime:
    def __init__(self, ctx, model_ok):
        self.ctx = ctx
        self.rng = random.Random(ctx.seed * 7919 + 17)
        self.model = Model() if model_ok else None
        self.escalate = bool(ctx.escalated)

    def n(self, quick, thorough):
        """volume knob; a changed fingerprint lifts the quick tier to thorough volume"""
        if self.ctx.tier == "thorough" or self.escalate:
            return thorough
        return quick

    def corr(self, stream, lines, expected, show=None):
        """pipe `lines` to the model, compare with `expected` (list of wire strings, None = skip)"""
        ctx = self.ctx
        st = ctx.stream(stream)
        if self.model is None:
            st["skipped"] = "model driver does not build"
            return []
        got = self.model.run(lines)
        bad = []
        dist = ctx.distribution.setdefault("by_stream_family", {})
        fam = dist.setdefault(stream.split("[")[0], {"ops": {}, "results": {}, "payload_chars": {}})
        for i, (l, e, g) in enumerate(zip(lines, expected, got)):
            if e is None:
                continue
            st["evaluations"] += 1
            # input distribution for the evidence: operation, kind of result (ok / which error), size bucket
            f = l.split("\t")
            fam["ops"][f[0]] = fam["ops"].get(f[0], 0) + 1
            ef = e.split("\t")
            kind = ef[0] if ef[0] != "err" else "err:" + (ef[1] if len(ef) > 1 else "?")
            if len(kind) > 40:
                kind = kind[:40]
            fam["results"][kind] = fam["results"].get(kind, 0) + 1
            n = (len(f[-1]) + 1) // 3 if len(f) > 1 else 0   # payload is comma-separated hex code points
            b = "0" if n == 0 else "<=%d" % (1 << max(n - 1, 0).bit_length())
            fam["payload_chars"][b] = fam["payload_chars"].get(b, 0) + 1
            if e != g:
                st["disagreements"] += 1
                human = show(i) if show else l
                bad.append(i)
                if len(ctx.disagreements) < 50:
                    ctx.disagreements.append((stream, l[:2000], g[:2000], e[:2000], human))
        return bad


def add_violation(ctx, sig, what, **kw):
    v = {"sig": sig, "what": what}
    v.update(kw)
    if len(ctx.violations) < 200:
        ctx.violations.append(v)


def set_table(rt, lines, expected, table):
    sf.set_semantic_constraints(dict(table))
    lines.append("T\t" + enc_dict({k: int(v) for k, v in sf.get_semantic_constraints().items()}))
    expected.append("ok")


def restore_default():
    sf.set_semantic_constraints("default")


# ===================================================================== decoder family

def decoder_inputs(ctx, rt, exhaustive_len=None, n_alive=None, n_uniform=None, many_rings=True):
    rng = rt.rng
    cases = []
    stats = {}
    k = exhaustive_len if exhaustive_len is not None else rt.n(3, 4)
    ex = list(gens.gen_exhaustive(gens.COVER28, k))
    if ctx.tier == "thorough":
        ex += [s for s in gens.gen_exhaustive(gens.COVER14, 5) if s.count("[") == 5]
    cases.append(("exhaustive<=%d/28" % k, ex))
    alive = gens.gen_stay_alive(rng, n_alive if n_alive is not None else rt.n(6000, 200000), 40, stats)
    alive += gens.gen_stay_alive(rng, rt.n(300, 5000), 400, stats)
    cases.append(("stay-alive", alive))
    alpha = sorted(sf.get_semantic_robust_alphabet()) + gens.MULTI + gens.TERM + gens.RING_STEREO + \
        gens.OTHER + ["[#Branch3]", "[=Ring3]", "[#Ring2]", "."]
    cases.append(("uniform", gens.gen_uniform(rng, alpha, n_uniform if n_uniform is not None else rt.n(3000, 100000), 60)))
    if many_rings:
        cases.append(("many-rings", gens.gen_many_rings(rng, rt.n(3, 40))))
    ctx.distribution["stay_alive_stats"] = stats
    return cases


def run_decoder_stream(ctx, rt, name, strings, table_name, table, flags="-", judge=None, op="dec"):
    """decoder correspondence on `strings` under `table`; `judge(s, wire_result)` evaluates the
    property predicate on the real result"""
    lines, expected = [], []
    set_table(rt, lines, expected, table)
    compat = "c" in flags
    attrib = "a" in flags
    idx = []
    for s in strings:
        if not sendable(s):
            continue
        r = impl.real_decoder(s, compat=compat, attribute=attrib)
        lines.append("%s\t%s\t%s" % (op, flags, enc(s)))
        expected.append(r if not (op == "specdec" and r == "err\tRecursionError") else None)
        idx.append(s)
        ctx.evaluations += 1
        if judge is not None:
            try:
                judge(s, r, table_name, table)
            except Exception as e:  # noqa  (the library raised inside the property predicate: a symptom, not an infrastructure error)
                add_violation(ctx, ctx.prop + ":predicate-raised:" + type(e).__name__,
                              "evaluating the property predicate on the real code raised " + type(e).__name__,
                              input=s[:300], table=table, result=r[:200])
    bad = rt.corr("%s%s[%s,%s]" % ("spec:" if op == "specdec" else "", name, table_name, flags), lines, expected,
                  show=lambda i: {"selfies": idx[i - 1] if i > 0 else None, "table": table_name, "flags": flags})
    return [idx[i - 1] for i in bad if i > 0]


def run_graph_stream(ctx, rt, name, strings, table_name, table):
    """graph-level tie: the MolecularGraph the real decoder builds vs the model's `decodeGraph` (atoms, roots,
    adjacency lists with orders / stereo / ring flags, tracked counts) - what the C01/C02/C08 theorems speak about"""
    lines, expected = [], []
    set_table(rt, lines, expected, table)
    idx = []
    for s in strings:
        if not sendable(s):
            continue
        mol = impl.real_decode_graph(s)
        if mol is None:
            continue
        lines.append("decg\t-\t%s" % enc(s))
        expected.append(impl.dump_decoder_graph(mol))
        idx.append(s)
        ctx.evaluations += 1
    rt.corr("graph:%s[%s]" % (name, table_name), lines, expected,
            show=lambda i: {"selfies": idx[i - 1] if i > 0 else None, "table": table_name})


def judge_C01(ctx):
    counter = [0]

    def judge(s, r, table_name, table):
        if not r.startswith("ok\t"):
            return
        out = dec(r.split("\t")[1])
        why = oracles.check_decoder_output(out, sf.get_semantic_constraints())
        if out:
            ctx.distinct.add(out)
        counter[0] += 1
        mol = None
        if why is not None or counter[0] % 7 == 0:
            # does the independent reader recover the graph the decoder built?  (writer-level oracle)
            mol = impl.real_decode_graph(s)
            if mol is not None and why is None:
                why2 = oracles.graph_matches_reader(mol, out)
                if why2 is not None:
                    why = "writer: " + why2
        if why is not None:
            sig = "C01:" + why.split(":")[0]
            if why.split(":")[0] in ("syntax", "writer") and mol is not None and impl.ring_bond_count(mol) > 99:
                # narrow signature of finding F1: the molecule has more than 99 ring bonds, labels are never
                # recycled, so the writer prints %100, %101, ... (which a SMILES reader reads as %10 0, %10 1, ...)
                sig = "C01:ring-label>99"
            add_violation(ctx, sig, "decoder output is not a valid SMILES (of the molecule the decoder built) under the table: " + why,
                          selfies=s, table=table, output=out)
    return judge



def deep_nesting_stage(ctx):
    """a string over the robust alphabet whose branches nest deeper than the interpreter's recursion limit:
    the property says it decodes; the recursive derivation cannot (residual of finding F2: since the repair the
    decoder raises DecoderError caused by RecursionError instead of letting RecursionError escape)"""
    s = "[C][Branch3][P][P][P]" * 2000
    ctx.evaluations += 1
    try:
        sf.decoder(s)
    except Exception as e:  # noqa
        cause = e if isinstance(e, RecursionError) else e.__cause__
        if isinstance(cause, RecursionError):
            add_violation(ctx, ctx.prop + ":deep-nesting-rejected",
                          "a string of accepted symbols nested deeper than the recursion limit is rejected (%s)" % type(e).__name__,
                          selfies_desc="'[C][Branch3][P][P][P]'*2000", error=type(e).__name__)
        else:
            add_violation(ctx, ctx.prop + ":deep-nesting-error:" + type(e).__name__,
                          "decoding a deeply nested string of accepted symbols raised " + type(e).__name__,
                          selfies_desc="'[C][Branch3][P][P][P]'*2000", error=str(e)[:200])


def check_C01(ctx, rt):
    ctx.rule = ("decoder(s) under table T compared with the compiled Lean model; s from: all strings <= k symbols "
                "over a 28-symbol cover alphabet, stay-alive generator, uniform strings, >99-ring stream; "
                "distinct = distinct non-empty output SMILES")
    tabs = gens.tables(rt.rng, sf, rt.n(3, 40))
    cases = decoder_inputs(ctx, rt)
    judge = judge_C01(ctx)
    try:
        for cname, strings in cases:
            use = tabs[:3] if cname.startswith("exhaustive") else tabs
            per = max(1, len(strings) // len(use)) if not cname.startswith("exhaustive") else None
            for ti, (tname, tab) in enumerate(use):
                chunk = strings if per is None else strings[ti * per:(ti + 1) * per]
                if cname == "many-rings" and ti > 0:
                    break
                run_decoder_stream(ctx, rt, cname, chunk, tname, tab, judge=judge)
            ctx.sample({"stream": cname, "example": strings[len(strings) // 2][:200]})
            if cname != "many-rings":
                run_graph_stream(ctx, rt, cname, strings[::rt.n(9, 17)], tabs[0][0], tabs[0][1])
                run_graph_stream(ctx, rt, cname, strings[3::rt.n(23, 41)], tabs[3][0], tabs[3][1])
        # external sanitizer clause: default table, strings over the robust alphabet
        restore_default()
        alpha = sorted(sf.get_semantic_robust_alphabet())
        st = ctx.stream("rdkit-sanitize[default,robust-alphabet]")
        for s in gens.gen_uniform(rt.rng, alpha, rt.n(1500, 30000), 80) + \
                [x for x in gens.gen_stay_alive(rt.rng, rt.n(1500, 30000), 60) if all(
                    t in alpha for t in sf.split_selfies(x.replace(".", "")) )][:rt.n(1500, 30000)]:
            try:
                out = sf.decoder(s)
            except Exception:
                continue
            st["evaluations"] += 1
            ctx.evaluations += 1
            if out and out.count("%") < 90 and not oracles.rdkit_valid(out):
                add_violation(ctx, "C01:rdkit", "RDKit rejects the decoder output", selfies=s, output=out)
        deep_nesting_stage(ctx)
        # "the constraints in force" are the ones that were SET: a caller that afterwards edits the dict it passed
        # (without setting it again) must not change what the decoder obeys
        probe = gens.gen_stay_alive(rt.rng, rt.n(150, 2000), 25)
        for tname, tab in tabs[:rt.n(4, 12)]:
            mine = dict(tab)
            sf.set_semantic_constraints(mine)
            snapshot = dict(mine)
            for s in probe[:20]:
                try:
                    sf.decoder(s)        # fills the caches under the table that was set
                except Exception:
                    pass
            for k in list(mine):
                mine[k] = 8 if mine[k] < 4 else 1       # caller-side edit of its own dict
            for s in probe:
                ctx.evaluations += 1
                try:
                    out = sf.decoder(s)
                except Exception:
                    continue
                why = oracles.check_decoder_output(out, snapshot)
                if why is not None:
                    add_violation(ctx, "C01:caller-edit:" + why.split(":")[0],
                                  "after the caller edited the dict it had passed to set_semantic_constraints, the decoder "
                                  "output no longer obeys the table that was set: " + why,
                                  selfies=s[:300], table_set=snapshot, output=out[:300])
                    break
    finally:
        restore_default()
    ctx.exhaustive = True
    ctx.assumptions.append("the external-sanitizer clause is validated by RDKit on generated strings, it is not a theorem")


def check_C02(ctx, rt):
    ctx.rule = ("decoder(s) (result string or exception class) compared with the Lean rendering for every string "
                "<= k symbols over a 28-symbol alphabet covering every rule/state, under 4 tables, and sampled beyond")
    tabs = gens.tables(rt.rng, sf, rt.n(2, 20))
    cases = decoder_inputs(ctx, rt, many_rings=False)

    def judge(s, r, tname, tab):
        if r.startswith("ok\t"):
            ctx.distinct.add(r)
    try:
        for cname, strings in cases:
            use = [tabs[0], tabs[1], tabs[2], tabs[4]] if cname.startswith("exhaustive") else tabs
            per = max(1, len(strings) // len(use)) if not cname.startswith("exhaustive") else None
            for ti, (tname, tab) in enumerate(use):
                chunk = strings if per is None else strings[ti * per:(ti + 1) * per]
                bad = run_decoder_stream(ctx, rt, cname, chunk, tname, tab, judge=judge)
                bad += run_decoder_stream(ctx, rt, cname, chunk if len(chunk) < 30000 else chunk[::3], tname, tab, op="specdec")
                for s in bad[:20]:
                    # a disagreement with the rendering of the grammar IS a C02 violation candidate;
                    # it is reported with the replay unless the graph-level re-check agrees
                    add_violation(ctx, "C02:differs-from-grammar",
                                  "decoder result differs from the derivation-grammar rendering",
                                  selfies=s, table=tab, implementation=impl.real_decoder(s))
            ctx.sample({"stream": cname, "example": strings[len(strings) // 3][:200]})
            run_graph_stream(ctx, rt, cname, strings[1::rt.n(9, 17)], tabs[0][0], tabs[0][1])
        # malformed: rejected exactly when reached
        mal = gens.gen_malformed_selfies(rt.rng, rt.n(2000, 40000), cases[1][1][:500])
        bad = run_decoder_stream(ctx, rt, "malformed", mal, "default", tabs[0][1], judge=judge)
        bad += run_decoder_stream(ctx, rt, "malformed", mal, "default", tabs[0][1], op="specdec")
        for s in list(dict.fromkeys(bad))[:20]:
            # accept/reject (or the result) differs from the grammar on a string with symbols outside it:
            # "rejected exactly when the derivation reaches a symbol outside the grammar" fails on this input
            add_violation(ctx, "C02:differs-from-grammar",
                          "decoder result differs from the derivation-grammar rendering on a string with symbols outside the grammar",
                          selfies=s[:500], table=tabs[0][1], implementation=impl.real_decoder(s)[:300])
    finally:
        restore_default()
    ctx.exhaustive = True


def check_C07(ctx, rt):
    ctx.rule = ("get_semantic_robust_alphabet() under generated accepted tables compared with the model's alphabet; "
                "every returned symbol decoded alone and in random strings over the returned alphabet; "
                "distinct = distinct (table, string) outputs")
    tabs = gens.tables(rt.rng, sf, rt.n(25, 400))
    lines, expected = [], []
    try:
        for tname, tab in tabs:
            set_table(rt, lines, expected, tab)
            alpha = sf.get_semantic_robust_alphabet()
            lines.append("alphabet")
            expected.append(None)     # compared as a set below
            ctx.evaluations += 1
            cur = sf.get_semantic_constraints()
            # contents clause
            want = set(gens.INDEX) | set(gens.BRANCH) | {"[Ring1]", "[Ring2]", "[Ring3]", "[=Ring1]", "[=Ring2]", "[=Ring3]"}
            for k, c in cur.items():
                if k == "?":
                    continue
                for b, m in (("", 1), ("=", 2), ("#", 3)):
                    if m <= c:
                        want.add("[%s%s]" % (b, k))
            if set(alpha) != want:
                add_violation(ctx, "C07:contents", "alphabet differs from the documented contents",
                              table=tab, extra=sorted(set(alpha) - want)[:5], missing=sorted(want - set(alpha))[:5])
            al = sorted(alpha)
            strings = [x for x in al] + gens.gen_uniform(rt.rng, al, rt.n(120, 1500), 50)
            for s in strings:
                ctx.evaluations += 1
                try:
                    out = sf.decoder(s)
                except Exception as e:  # noqa
                    add_violation(ctx, "C07:error:" + type(e).__name__,
                                  "a string over the robust alphabet does not decode", table=tab, selfies=s[:300],
                                  error=type(e).__name__)
                    continue
                ctx.distinct.add((tname, out))
                why = oracles.check_decoder_output(out, cur)
                if why is not None:
                    add_violation(ctx, "C07:" + why.split(":")[0], "output over the robust alphabet violates the table: " + why,
                                  table=tab, selfies=s[:300], output=out[:300])
            ctx.sample({"table": tab, "alphabet_size": len(alpha)})
        # model alphabets, compared as sets
        if rt.model is not None:
            got = rt.model.run(lines)
            ti = 0
            st = ctx.stream("alphabet")
            for l, g in zip(lines, got):
                if l == "alphabet":
                    tname, tab = tabs[ti]
                    ti += 1
                    sf.set_semantic_constraints(dict(tab))
                    real = set(sf.get_semantic_robust_alphabet())
                    model = set(dec(x) for x in g.split("\t")[1].split(" ")) if "\t" in g and g.split("\t")[1] else set()
                    st["evaluations"] += 1
                    if real != model:
                        st["disagreements"] += 1
                        ctx.disagreements.append(("alphabet", "table=%r" % (tab,), sorted(model - real)[:5], sorted(real - model)[:5], {"table": tab}))
        # decoding over alphabets: model correspondence too
        for tname, tab in tabs[:rt.n(6, 40)]:
            sf.set_semantic_constraints(dict(tab))
            al = sorted(sf.get_semantic_robust_alphabet())
            run_decoder_stream(ctx, rt, "over-alphabet", gens.gen_uniform(rt.rng, al, rt.n(300, 3000), 60), tname, tab)
        # finding F10: a key whose charge has more digits than int() converts
        try:
            sf.set_semantic_constraints({"?": 8, "C+" + "1" * 5000: 3})
            for sym in sf.get_semantic_robust_alphabet():
                if len(sym) > 100:
                    try:
                        sf.decoder(sym)
                    except sf.DecoderError:
                        add_violation(ctx, "C07:long-charge-key", "alphabet symbol of a key with a >4300-digit charge is rejected by the decoder",
                                      key="C+" + "1*5000")
                        break
        except ValueError:
            pass
        restore_default()
        deep_nesting_stage(ctx)
        # the alphabet reflects the table in force also after the caller edits the dict it passed in / got back, and
        # after a rejected update (the table in force is what get_semantic_constraints() reports)
        for tname, tab in tabs[:rt.n(8, 60)]:
            mine = dict(tab)
            sf.set_semantic_constraints(mine)
            got = sf.get_semantic_constraints()
            for k in list(mine)[:3]:
                mine[k] = 0 if mine[k] else 3          # caller-side edits, no library call
            mine["Fe"] = 5
            got["Zn"] = 1
            try:
                bad = dict(mine)
                bad["Fe"] = -2
                sf.set_semantic_constraints(bad)
            except ValueError:
                pass
            ctx.evaluations += 1
            cur = sf.get_semantic_constraints()
            if cur != dict(tab):
                add_violation(ctx, "C07:table-changed-by-caller", "the table in force changed without a successful update",
                              table=tab, now=cur)
                continue
            want = set(gens.INDEX) | set(gens.BRANCH) | {"[Ring1]", "[Ring2]", "[Ring3]", "[=Ring1]", "[=Ring2]", "[=Ring3]"}
            for k, c in cur.items():
                if k != "?":
                    for b, m in (("", 1), ("=", 2), ("#", 3)):
                        if m <= c:
                            want.add("[%s%s]" % (b, k))
            if set(sf.get_semantic_robust_alphabet()) != want:
                add_violation(ctx, "C07:stale", "alphabet does not reflect the table in force after caller-side edits", table=tab)
        # reflects the table in force at the time of the call
        sf.set_semantic_constraints("hypervalent")
        a1 = sf.get_semantic_robust_alphabet()
        sf.set_semantic_constraints("default")
        a2 = sf.get_semantic_robust_alphabet()
        if "[#Cl]" not in a1 or "[#Cl]" in a2:
            add_violation(ctx, "C07:stale", "alphabet does not reflect the table in force", a1=sorted(a1)[:5], a2=sorted(a2)[:5])
    finally:
        restore_default()


def check_C08(ctx, rt):
    ctx.rule = ("decoder(s, compatible, attribute) on arbitrary str: malformed brackets, unknown/legacy symbols, stray "
                "characters, empty fragments, oversized indices, long and deeply nested input; exception class compared "
                "with the model; distinct = distinct (flags, outcome class, input)")
    base = gens.gen_stay_alive(rt.rng, 400, 30)
    mal = gens.gen_malformed_selfies(rt.rng, rt.n(2500, 60000), base)
    mal += gens.gen_uniform(rt.rng, gens.INVALID + gens.MULTI + gens.BRANCH + gens.RING_PLAIN + gens.OTHER + ["."],
                            rt.n(1500, 30000), 30)
    mal += ["[C]" * 3000, "[C][Branch1][C]" * 1000, "[C][=Branch2][P][P]" * 200, "[" + "9" * 5000 + "C]",
            "[C+" + "9" * 5000 + "]", "[" + "9" * 5000 + "Cexpl]", "[C][Ring3][P][P][P]" * 300,
            "[C][Branch3][P][P][P]" + "[C]" * 5000, "[C]" + "[Branch1][C][C]" * 300]
    # nesting well below the recursion budget (the band near the budget is never compared)
    mal += ["[C][Branch1][C]" * 150 + "[F]", "[C][Branch3][P][P][P]" * 200]
    before = sf.get_semantic_constraints()
    try:
        for flags in ("-", "c", "a", "ca"):
            def judge(s, r, tname, tab, flags=flags):
                ctx.distinct.add((flags, r.split("\t")[1] if r.startswith("err") else "ok", s[:80]))
                if r.startswith("err\t") and r != "err\tDecoderError":
                    add_violation(ctx, "C08:escape:" + r.split("\t")[1],
                                  "an exception other than DecoderError escapes selfies.decoder",
                                  selfies=s[:500], flags=flags, error=r.split("\t")[1])
            run_decoder_stream(ctx, rt, "malformed", mal, "default", dict(before), flags=flags, judge=judge)
            if sf.get_semantic_constraints() != before:
                add_violation(ctx, "C08:state", "decoder changed the constraint state", flags=flags)
        ctx.sample({"example": mal[7][:120]})
        # the same call after other calls under other tables (the symbol memo must stay table-independent):
        # decode under a permissive table, tighten the table, decode again; exception class vs the model
        tdep = ["[SH5]", "[C][SH5]", "[CH3][C]", "[C][CH3]", "[NH4+1]", "[C][NH3][C]", "[PH4][F]", "[OH2]", "[C][OH1][C]",
                "[SiH4]", "[C].[SH5][C]", "[C][Branch1][C][SH5][O]", "[BH3-1][C]", "[IH2][C]", "[FeH6][C]", "[C][ClH1]"]
        tdep += gens.gen_uniform(rt.rng, tdep + ["[C]", "[=O]", "[N]", "[Branch1]", "[Ring1]"], rt.n(300, 5000), 6)
        seq = [("relaxed", gens.relaxed_table(sf)), ("octet_rule", sf.get_preset_constraints("octet_rule")),
               ("cap0", {"C": 0, "N": 0, "O": 2, "F": 1, "?": 0}), ("default", sf.get_preset_constraints("default")),
               ("tight", {"C": 2, "N": 1, "O": 1, "S": 2, "P": 3, "?": 3}), ("hypervalent", sf.get_preset_constraints("hypervalent"))]
        for tname, tab in seq:
            def judge2(s, r, tn, tb):
                if r.startswith("err\t") and r != "err\tDecoderError":
                    add_violation(ctx, "C08:escape-after-table-change:" + r.split("\t")[1],
                                  "an exception other than DecoderError escapes selfies.decoder after the table was changed",
                                  selfies=s[:300], table=tb, error=r.split("\t")[1])
            run_decoder_stream(ctx, rt, "table-sequence", tdep, tname, tab, judge=judge2)
        restore_default()
        # deep nesting: RecursionError is the known family F2; anything else is reported
        for s, name in ((("[C][Branch3][P][P][P]" * 2000), "branch-nesting-2000"),):
            ctx.evaluations += 1
            r = impl.real_decoder(s)
            if r == "err\tRecursionError":
                add_violation(ctx, "C08:RecursionError:" + (impl.LAST_FRAME or "?"),
                              "RecursionError escapes selfies.decoder on deeply nested branches", selfies_desc=name)
            elif r.startswith("err\t") and r != "err\tDecoderError":
                add_violation(ctx, "C08:escape:" + r.split("\t")[1], "exception escapes on deep nesting", selfies_desc=name)
    finally:
        restore_default()


def nop_variants(rng, s, k):
    toks = list(sf.split_selfies(s))
    out = []
    for _ in range(k):
        t = list(toks)
        for _j in range(rng.randint(1, 6)):
            t.insert(rng.randint(0, len(t)), "[nop]")
        out.append("".join(t))
    return out


def check_C13(ctx, rt):
    ctx.rule = ("decoder(s') == decoder(s) for s' = s with [nop] inserted at random positions (index positions, inside "
                "branches, around dots), all four flag combinations, on the real code; plus decoder correspondence of s'; "
                "distinct = distinct (s, s') pairs")
    base = gens.gen_stay_alive(rt.rng, rt.n(700, 20000), 30)
    base += ["[C][Branch1][C][O].[N]", "[C][Ring1].[C]", "[C][C][Branch1]", "[C].[nop].[C]", "[nop].[C]"]
    try:
        allv = []
        for s in base:
            if "[nop]" in s:
                s0 = s
            else:
                s0 = s
            vs = nop_variants(rt.rng, s0, 2)
            ref = None
            for flags in (("-", False, False), ("c", True, False), ("a", False, True), ("ca", True, True)):
                r0 = impl.real_decoder(s0.replace("[nop]", ""), compat=flags[1], attribute=flags[2])
                for v in vs:
                    ctx.evaluations += 1
                    r1 = impl.real_decoder(v, compat=flags[1], attribute=flags[2])
                    ctx.distinct.add((s0, v))
                    if r0 != r1:
                        add_violation(ctx, "C13:nop-visible", "[nop] insertion changes the decoder result",
                                      original=s0.replace("[nop]", ""), padded=v, flags=flags[0])
            allv.extend(vs)
        run_decoder_stream(ctx, rt, "nop-padded", allv[:rt.n(1500, 40000)], "default", sf.get_preset_constraints("default"))
        # padding comes in long unbroken runs (pad_to_len of a whole data set): runs of 1 500 and 5 000 [nop] at the end,
        # behind a branch symbol (before its index), before a dot and in front
        for s0 in ["[C][=C][Branch1][C][F][O]", "[C][C][Ring1][C].[N][#C]", "[C][Branch1][Ring1][C][O][N]"]:
            toks = list(sf.split_selfies(s0))
            r0 = impl.real_decoder(s0)
            for run in (1500, 5000):
                for pos in sorted({0, 1, 3, len(toks)} | {i for i, t in enumerate(toks) if t == "."}):
                    v = "".join(toks[:pos]) + "[nop]" * run + "".join(toks[pos:])
                    ctx.evaluations += 1
                    r1 = impl.real_decoder(v)
                    if r0 != r1:
                        add_violation(ctx, "C13:nop-visible", "a long run of [nop] changes the decoder result",
                                      original=s0, padded="%s + '[nop]'*%d + %s" % ("".join(toks[:pos]), run, "".join(toks[pos:])),
                                      plain=r0[:120], with_padding=r1[:120])
        # padding round trip through the encodings
        for s in base[:rt.n(300, 5000)]:
            if s.count("..") or s.startswith(".") or "[nop]" in s:
                continue
            syms = set(sf.split_selfies(s)) | {"[nop]"}
            stoi = {x: i for i, x in enumerate(sorted(syms))}
            itos = {i: x for x, i in stoi.items()}
            pad = sf.len_selfies(s) + rt.rng.randint(0, 5)
            try:
                lab = sf.selfies_to_encoding(s, stoi, pad_to_len=pad, enc_type="label")
                back = sf.encoding_to_selfies(lab, itos, enc_type="label")
            except Exception as e:  # noqa
                add_violation(ctx, "C13:padding-error", "padding round trip raised", selfies=s, error=type(e).__name__)
                continue
            ctx.evaluations += 1
            if impl.real_decoder(back) != impl.real_decoder(s):
                add_violation(ctx, "C13:padding", "padded string decodes differently", selfies=s, padded=back)
        ctx.sample({"original": base[0][:150], "padded": allv[0][:200]})
    finally:
        restore_default()


def check_C16(ctx, rt):
    ctx.rule = ("exhaustive: get_selfies_from_index(n) for every n < 16^3 (and sampled n < 16^5) and "
                "get_index_from_selfies over every triple of {16 index symbols, 2 non-index symbols, missing}, "
                "real functions vs model; plus the real decoder/encoder on crafted ring distances / branch lengths")
    from selfies.grammar_rules import get_index_from_selfies, get_selfies_from_index
    from selfies.constants import INDEX_ALPHABET
    lines, expected = [], []
    ns = list(range(16 ** 3 + 20)) + [rt.rng.randrange(16 ** 5) for _ in range(rt.n(500, 20000))] + [-1, -7]
    for n in ns:
        try:
            r = "ok\t" + " ".join(enc(x) for x in get_selfies_from_index(n))
        except Exception as e:  # noqa
            r = "err\t" + type(e).__name__
        lines.append("sfi\t%d" % n)
        expected.append(r)
        ctx.evaluations += 1
        if n >= 0 and r.startswith("ok"):
            syms = get_selfies_from_index(n)
            ctx.distinct.add(n)
            back = get_index_from_selfies(*syms)
            if back != n:
                add_violation(ctx, "C16:roundtrip", "index code does not round-trip", n=n, symbols=syms, back=back)
            if n < 16 ** 3 and len(syms) > 3:
                add_violation(ctx, "C16:length", "more than three symbols below 16^3", n=n, symbols=syms)
            if n > 0 and syms[0] == INDEX_ALPHABET[0]:
                add_violation(ctx, "C16:leading-zero", "not the shortest sequence", n=n, symbols=syms)
            want = []
            m = n
            while True:
                want.append(gens.INDEX[m % 16])
                m //= 16
                if m == 0:
                    break
            if syms != want[::-1]:
                add_violation(ctx, "C16:digits", "digits are not the documented base-16 digits", n=n, symbols=syms)
    rt.corr("get_selfies_from_index", lines, expected)
    pool = list(INDEX_ALPHABET) + ["[F]", "[Branch3]", None]
    lines, expected = [], []
    for t in itertools.product(pool, repeat=3):
        v = get_index_from_selfies(*t)
        lines.append("idx\t" + "\t".join("N" if x is None else enc(x) for x in t))
        expected.append("ok\t%d" % v)
        ctx.evaluations += 1
        want = 0
        for x in t:
            want = want * 16 + (gens.INDEX.index(x) if x in gens.INDEX else 0)
        if v != want:
            add_violation(ctx, "C16:decode", "decoder-side index value is not the documented Horner value", symbols=t, value=v)
    rt.corr("get_index_from_selfies", lines, expected)
    # through the real translators: ring of size n+2 and branch of length n
    restore_default()
    strings = []
    for n in list(range(2, 40)) + [255, 256, 257, 300, 4094]:
        smi = "C1" + "C" * n + "1"
        try:
            s = sf.encoder(smi)
            out = sf.decoder(s)
        except Exception as e:  # noqa
            add_violation(ctx, "C16:translator", "ring of span %d fails" % n, smiles=smi[:50], error=type(e).__name__)
            continue
        ctx.evaluations += 1
        strings.append(s)
        if out != "C1" + "C" * n + "1":
            add_violation(ctx, "C16:translator", "ring of span %d does not come back" % n, output=out[:80])
        smi = "N(" + "C" * n + ")O"
        s = sf.encoder(smi)
        strings.append(s)
        if sf.decoder(s) != smi:
            add_violation(ctx, "C16:translator", "branch of length %d does not come back" % n, output=sf.decoder(s)[:80])
    # a missing symbol at the END of the string counts as digit 0: the decoder on a string that ends inside the index
    # of a ring / branch symbol must equal the decoder on the same string padded with [C] (digit 0)
    trunc = []
    for natoms in (3, 8, 20, 40, 300):
        for L, kind in ((2, "Ring2"), (3, "Ring3"), (2, "Branch2"), (3, "Branch3"), (1, "Ring1"), (1, "Branch1"), (2, "=Ring2"), (3, "#Branch3")):
            for present in itertools.product(gens.INDEX[:4] + ["[O]", "[P]", "[F]"], repeat=L - 1 if L > 1 else 0):
                for cut in range(0, L):
                    head = "[C]" * natoms + "[%s]" % kind + "".join(present[:cut])
                    missing = L - cut
                    trunc.append((head, head + "[C]" * missing))
                    trunc.append(("[N][C]." + head, "[N][C]." + head + "[C]" * missing))
                    trunc.append((head + ".[O]", head + "[C]" * missing + ".[O]"))
    for a, b in trunc:
        ctx.evaluations += 1
        ra, rb = impl.real_decoder(a), impl.real_decoder(b)
        if ra != rb:
            add_violation(ctx, "C16:missing-at-end", "a missing index symbol at the end of the string does not count as digit 0",
                          truncated=a[-120:], padded=b[-120:], got=ra[:200], want=rb[:200])
    run_decoder_stream(ctx, rt, "truncated-index", [a for a, _b in trunc][::3], "default", sf.get_preset_constraints("default"))
    run_decoder_stream(ctx, rt, "crafted", strings, "default", sf.get_preset_constraints("default"))
    ctx.exhaustive = True
    ctx.sample({"n": 57, "symbols": get_selfies_from_index(57)})


LEGACY = ["[Branch%d_%d]" % (L, M) for L in (1, 2, 3) for M in (1, 2, 3)] + \
    ["[Expl%sRing%d]" % (b, L) for L in (1, 2, 3) for b in ("=", "#", "/", "\\")] + \
    ["[Cexpl]", "[C@@Hexpl]", "[=Nexpl]", "[NH3+expl]", "[O-expl]", "[/C@Hexpl]", "[13CH2expl]", "[Fe++expl]",
     "[cexpl]", "[nHexpl]", "[Xexpl]", "[expl]", "[#Cexpl]", "[CH1expl]", "[N+1expl]", "[\\Clexpl]", "[Sexpl]",
     "[CHexpl]", "[C-expl]", "[C--expl]", "[14C@@expl]", "[Si@expl]", "[=Oexpl]", "[Brexpl]", "[Seexpl]", "[=Seexpl]",
     "[Clexpl]", "[Alexpl]", "[Feexpl]", "[Teexpl]", "[Xeexpl]", "[Tlexpl]", "[Npexpl]", "[Heexpl]", "[Beexpl]", "[Geexpl]",
     "[Reexpl]", "[Ceexpl]", "[Neexpl]", "[/Clexpl]", "[Alexpl]", "[SeH1expl]", "[Fe+3expl]", "[Li+expl]", "[Pexpl]"]


def check_C18(ctx, rt):
    ctx.rule = ("modernize_symbol on every legacy spelling family vs the model; decoder(x, compatible=True) vs decoder on "
                "the independently modernised string; strings without legacy symbols with and without the flag; "
                "distinct = distinct strings")
    from selfies.compatibility import modernize_symbol
    # symbol level
    lines, expected = [], []
    syms = LEGACY + gens.MULTI + gens.TERM + gens.BRANCH + gens.RING_PLAIN + gens.RING_STEREO + gens.INVALID + gens.OTHER
    for b in ("", "=", "#", "/", "\\"):
        for body in ("C", "N", "CH1", "C@@H1", "NH1+1", "O-1", "13C", "Cl", "Fe+2", "C@", "S+1", "CH", "N+", "O-", "Fe++", "c", "n"):
            syms.append("[%s%sexpl]" % (b, body))
    for s in syms:
        try:
            r = "ok\t" + enc(modernize_symbol(s))
        except Exception as e:  # noqa
            r = "err\t" + type(e).__name__
        lines.append("mod\t" + enc(s))
        expected.append(r)
        ctx.evaluations += 1
    rt.corr("modernize_symbol", lines, expected)
    documented = {}
    for L in (1, 2, 3):
        documented["[Branch%d_1]" % L] = "[Branch%d]" % L
        documented["[Branch%d_2]" % L] = "[=Branch%d]" % L
        documented["[Branch%d_3]" % L] = "[#Branch%d]" % L
        documented["[Expl=Ring%d]" % L] = "[=Ring%d]" % L
        documented["[Expl#Ring%d]" % L] = "[#Ring%d]" % L
        documented["[Expl/Ring%d]" % L] = "[//Ring%d]" % L
        documented["[Expl\\Ring%d]" % L] = "[\\\\Ring%d]" % L
    for k, v in documented.items():
        if modernize_symbol(k) != v:
            add_violation(ctx, "C18:table", "legacy symbol is not mapped to its documented equivalent", symbol=k,
                          got=modernize_symbol(k), want=v)
    # string level
    modern_pool = gens.MULTI + gens.TERM + gens.BRANCH + gens.RING_PLAIN + gens.INDEX + ["[epsilon]"]
    legacy_pool = [s for s in LEGACY if s not in ("[Xexpl]", "[expl]", "[cexpl]", "[nHexpl]")]
    strings_modern = gens.gen_stay_alive(rt.rng, rt.n(1200, 30000), 30)
    strings_mixed = gens.gen_uniform(rt.rng, modern_pool + legacy_pool * 3, rt.n(1500, 40000), 25)
    # several '.'-fragments: legacy symbols in the first, in a later, in every, in no fragment (the flag is per call,
    # not per fragment); '.' also inside the uniform pool
    strings_mixed += gens.gen_uniform(rt.rng, modern_pool + legacy_pool * 3 + ["."] * 4, rt.n(500, 10000), 25)
    for _i in range(rt.n(500, 10000)):
        frs = []
        for _j in range(rt.rng.randint(2, 4)):
            pool_j = modern_pool if rt.rng.random() < 0.5 else modern_pool + legacy_pool * 3
            frs.append("".join(rt.rng.choice(pool_j) for _k in range(rt.rng.randint(1, 8))))
        strings_mixed.append(".".join(frs))
    try:
        for s in strings_modern:
            ctx.evaluations += 1
            ctx.distinct.add(s)
            a = impl.real_decoder(s, compat=True)
            b = impl.real_decoder(s, compat=False)
            if a != b:
                add_violation(ctx, "C18:not-conservative", "compatible=True changes the result of a modern string", selfies=s)
        for s in strings_mixed:
            ctx.evaluations += 1
            ctx.distinct.add(s)
            # modernise symbol by symbol, fragment by fragment (split_selfies on the WHOLE string glues the second of
            # two consecutive dots to the next symbol; the decoder splits at every '.' first)
            frs = [list(sf.split_selfies(fr)) for fr in s.split(".")]
            toks = [t for fr in frs for t in fr]
            mod = ".".join("".join(oracles.modernize(t) for t in fr) for fr in frs)      # independent of selfies.compatibility
            a = impl.real_decoder(s, compat=True)
            b = impl.real_decoder(mod, compat=False)
            if a != b:
                add_violation(ctx, "C18:not-commuting", "compatible=True differs from decoding the modernised string",
                              selfies=s, modernised=mod, with_flag=a, modernised_result=b)
            if any(t in documented for t in toks):
                c = impl.real_decoder(s, compat=False)
                # rejected when the legacy symbol is reached; if accepted, the symbol was not reached
        run_decoder_stream(ctx, rt, "legacy-mixed", strings_mixed[:rt.n(800, 20000)], "default",
                           sf.get_preset_constraints("default"), flags="c")
        run_decoder_stream(ctx, rt, "legacy-mixed-noflag", strings_mixed[:rt.n(800, 20000)], "default",
                           sf.get_preset_constraints("default"), flags="-")
        for k in documented:
            r = impl.real_decoder("[C]" + k + "[C][C]")
            if r != "err\tDecoderError":
                add_violation(ctx, "C18:legacy-accepted", "legacy symbol accepted without the flag", symbol=k, result=r)
        ctx.sample({"mixed": strings_mixed[0][:150]})
    finally:
        restore_default()


# ===================================================================== utilities

def wf_strings(rng, n):
    bodies = ["C", "=C", "nop", "Branch1", "x y", "", "٣", "C@@H1", "#Ring2", "epsilon", "a,b", "\\C", "é", "0", "Ring1"]
    out = []
    for _ in range(n):
        k = rng.randint(0, 12)
        items = []
        for _j in range(k):
            items.append("[" + rng.choice(bodies) + "]")
            if rng.random() < 0.25:
                items.append(".")
        out.append(items)
    out.append([])
    return out


def check_C14(ctx, rt):
    ctx.rule = ("split_selfies / len_selfies / get_alphabet_from_selfies on generated well-formed strings (random symbol "
                "bodies incl. Unicode, any placement of single dots, the empty string) vs the model, and the three "
                "equalities of the property on the real code; encoder outputs are checked for well-formedness; "
                "distinct = distinct strings")
    cases = wf_strings(rt.rng, rt.n(4000, 200000))
    lines, expected = [], []
    for items in cases:
        s = "".join(items)
        ctx.evaluations += 1
        ctx.distinct.add(s)
        try:
            got = list(sf.split_selfies(s))
        except Exception as e:  # noqa
            add_violation(ctx, "C14:split-raises", "split_selfies raises %s on a well-formed string" % type(e).__name__,
                          string=s, items=items)
            continue
        lines.append("split\t" + enc(s))
        expected.append("ok\t" + " ".join(enc(x) for x in got))
        lines.append("len\t" + enc(s))
        expected.append("ok\t%d" % sf.len_selfies(s))
        if got != items:
            add_violation(ctx, "C14:split", "split_selfies does not yield the items", string=s, got=got)
        if "".join(got) != s:
            add_violation(ctx, "C14:concat", "concatenation differs", string=s)
        if sf.len_selfies(s) != len(items):
            add_violation(ctx, "C14:len", "len_selfies differs from the number of items", string=s, len=sf.len_selfies(s))
    rt.corr("split/len", lines, expected)
    lines, expected = [], []
    for _ in range(rt.n(300, 10000)):
        batch = ["".join(x) for x in rt.rng.sample(cases, rt.rng.randint(0, 5))]
        a = sf.get_alphabet_from_selfies(batch)
        want = set(t for s in batch for t in sf.split_selfies(s)) - {"."}
        ctx.evaluations += 1
        if a != want:
            add_violation(ctx, "C14:alphabet", "alphabet differs from the set of symbols", batch=batch)
        lines.append("alph" + "".join("\t" + enc(s) for s in batch))
        expected.append(None)
    if rt.model is not None:
        got = rt.model.run(lines) if lines else []
        st = ctx.stream("alphabet")
        for l, g in zip(lines, got):
            batch = [dec(x) for x in l.split("\t")[1:]]
            real = sf.get_alphabet_from_selfies(batch)
            model = set(dec(x) for x in g.split("\t")[1].split(" ")) if g.startswith("ok\t") and g.split("\t")[1] else set()
            st["evaluations"] += 1
            if real != model:
                st["disagreements"] += 1
                ctx.disagreements.append(("alphabet", l, g, sorted(real), {"batch": batch}))
    # the utilities are functions of their argument: calling OTHER entry points on the same strings in between
    # (padding encoders, the decoder, the utilities themselves) must not change what they return
    for items in cases[:rt.n(400, 8000)]:
        s = "".join(items)
        try:
            before = (list(sf.split_selfies(s)), sf.len_selfies(s), sf.get_alphabet_from_selfies([s]))
        except Exception:
            continue
        vocab = {sym: i for i, sym in enumerate(dict.fromkeys(items + ["[nop]"]))}
        for call in (lambda: sf.selfies_to_encoding(s, vocab, pad_to_len=len(items) + 3, enc_type="both"),
                     lambda: sf.batch_selfies_to_flat_hot([s, s], vocab, pad_to_len=len(items) + 5),
                     lambda: sf.selfies_to_encoding(s, vocab, pad_to_len=-1, enc_type="label"),
                     lambda: sf.decoder(s), lambda: sf.get_alphabet_from_selfies([s, "[nop]" + s])):
            try:
                call()
            except Exception:
                pass
        ctx.evaluations += 1
        after = (list(sf.split_selfies(s)), sf.len_selfies(s), sf.get_alphabet_from_selfies([s]))
        if after != before:
            add_violation(ctx, "C14:history-dependent",
                          "a tokenisation utility returns something else after other entry points were called on the same string",
                          string=s[:300], before=[before[0][:12], before[1], sorted(before[2])[:12]],
                          after=[after[0][:12], after[1], sorted(after[2])[:12]])
            break
    # malformed strings: same items / same error class
    lines, expected = [], []
    for s in gens.gen_malformed_selfies(rt.rng, rt.n(500, 10000), ["".join(c) for c in cases[:200]]):
        if not sendable(s):
            continue
        try:
            got = list(sf.split_selfies(s))
            r = "ok\t" + " ".join(enc(x) for x in got)
        except ValueError:
            r = None
        if r is not None:
            lines.append("split\t" + enc(s))
            expected.append(r)
    rt.corr("split-malformed", lines, expected)
    # encoder output is well formed and the decoder consumes exactly these tokens
    restore_default()
    for smi in gens.dataset_smiles(rt.rng, rt.n(15, 300)) + gens.STEREO_SEEDS + gens.AROMATIC_SEEDS + ["C.C", "[Na+].[Cl-]", "CC.N.O"]:
        try:
            s = sf.encoder(smi, strict=False)
        except sf.EncoderError:
            continue
        ctx.evaluations += 1
        toks = list(sf.split_selfies(s))
        ok = "".join(toks) == s and sf.len_selfies(s) == len(toks) and all(
            (t == "." or (t[0] == "[" and t[-1] == "]" and not set(t[1:-1]) & set("[]."))) for t in toks) \
            and not s.startswith(".") and ".." not in s and not s.endswith(".")
        if not ok:
            add_violation(ctx, "C14:encoder-output", "encoder output is not a well-formed SELFIES string", smiles=smi, selfies=s)
    ctx.sample({"items": cases[3]})


def check_C15(ctx, rt):
    ctx.rule = ("selfies_to_encoding / encoding_to_selfies / batch functions on generated vocabularies x strings x pad "
                "lengths x enc_type values (valid and invalid) vs the model, and the inverse laws on the real code; "
                "distinct = distinct (vocab, string, pad, enc_type)")
    lines, expected = [], []

    def vocab_wire(d):
        return ";".join("%s=%d" % (enc(k), v) for k, v in d.items()) or "-"

    def itos_wire(d):
        return ";".join("%d=%s" % (k, enc(v)) for k, v in d.items()) or "-"
    for _ in range(rt.n(2500, 80000)):
        stoi = gens.random_vocab(rt.rng)
        itos = {i: s for s, i in stoi.items()}
        syms = [s for s in stoi if s != "."]
        k = rt.rng.randint(0, 8)
        toks = []
        for _j in range(k):
            toks.append(rt.rng.choice(syms))
            if "." in stoi and rt.rng.random() < 0.2:
                toks.append(".")
        if rt.rng.random() < 0.08:
            toks.insert(rt.rng.randint(0, len(toks)), rt.rng.choice(["[Xx]", ".", "[nop]"]))
        s = "".join(toks)
        n = sf.len_selfies(s)
        pad = rt.rng.choice([-5, -1, 0, n - 1, n, n + 1, n + 3, n + 50])
        et = rt.rng.choice(["label", "one_hot", "both", "both", "Label", "onehot", ""])
        ctx.evaluations += 1
        ctx.distinct.add((tuple(stoi), s, pad, et))
        try:
            r = sf.selfies_to_encoding(s, stoi, pad_to_len=pad, enc_type=et)
            if et == "label":
                lab, hot = r, None
            elif et == "one_hot":
                lab, hot = None, r
            else:
                lab, hot = r
            w = "ok\t%s\t%s" % ("N" if lab is None else ",".join(map(str, lab)),
                                "N" if hot is None else ";".join(",".join(map(str, row)) for row in hot))
        except Exception as e:  # noqa
            w = "err\t" + type(e).__name__
            lab = hot = None
        lines.append("s2e\t%s\t%s\t%d\t%s" % (enc(s), vocab_wire(stoi), pad, et))
        expected.append(w)
        wf = not s.startswith(".") and ".." not in s
        # "for every vocabulary bijection and string over it ... yields the labels": a refusal of a string whose
        # symbols (and, if padding is needed, [nop]) are all in the vocabulary, with a valid enc_type, is a failure
        if w.startswith("err") and wf and et in ("label", "one_hot", "both") and all(t in stoi for t in toks) \
                and (pad <= n or "[nop]" in stoi):
            add_violation(ctx, "C15:encode-raises", "selfies_to_encoding refuses a string over the vocabulary (%s)" % w.split("\t")[1],
                          string=s, vocab=stoi, pad=pad, enc_type=et)
        if w.startswith("ok") and wf:
            items = list(sf.split_selfies(s))
            L = max(len(items), pad)
            padded = s + "[nop]" * (L - len(items))
            if lab is not None:
                if len(lab) != L or lab != [stoi[x] for x in items] + [stoi.get("[nop]")] * (L - len(items)):
                    add_violation(ctx, "C15:label", "label encoding is not indices + padding", string=s, pad=pad, label=lab)
                back = sf.encoding_to_selfies(lab, itos, enc_type="label")
                if back != padded:
                    add_violation(ctx, "C15:inverse-label", "label decoding is not the padded string", string=s, back=back)
                lines.append("l2s\t%s\t%s" % (",".join(map(str, lab)) or "-", itos_wire(itos)))
                expected.append("ok\t" + enc(back))
            if hot is not None:
                want_lab = [stoi[x] for x in items] + [stoi.get("[nop]")] * (L - len(items))
                if len(hot) != L or any(len(r_) != len(stoi) or sum(r_) != 1 or r_[i] != 1 or set(r_) - {0, 1}
                                        for r_, i in zip(hot, want_lab)):
                    add_violation(ctx, "C15:onehot", "one-hot rows are not unit vectors at the label", string=s, pad=pad)
                back = sf.encoding_to_selfies(hot, itos, enc_type="one_hot")
                if back != padded:
                    add_violation(ctx, "C15:inverse-onehot", "one-hot decoding is not the padded string", string=s, back=back)
        elif w.startswith("err") and w not in ("err\tKeyError", "err\tValueError"):
            add_violation(ctx, "C15:error-class", "unexpected exception class", string=s, error=w)
    # encoding_to_selfies checks its own enc_type first ("both" is not accepted there)
    itos0 = {0: "[nop]", 1: "[C]", 2: "[F]"}
    for et in ("label", "one_hot", "both", "", "Label"):
        try:
            w = "ok\t" + enc(sf.encoding_to_selfies([1, 2, 0] if et == "label" else [[0, 1, 0], [0, 0, 1], [1, 0, 0]], itos0, enc_type=et))
        except Exception as e:  # noqa
            w = "err\t" + type(e).__name__
        lines.append("e2s\t%s\t1,2,0\t0,1,0;0,0,1;1,0,0\t%s" % (et or "-", itos_wire(itos0)))
        expected.append(w)
        if et not in ("label", "one_hot") and w != "err\tValueError":
            add_violation(ctx, "C15:enc-type", "encoding_to_selfies accepts a bad enc_type", enc_type=et, result=w)
    rt.corr("selfies_to_encoding", lines, expected)
    # batch functions
    lines, expected = [], []
    for _ in range(rt.n(400, 10000)):
        stoi = gens.random_vocab(rt.rng, with_dot=False)
        itos = {i: s for s, i in stoi.items()}
        syms = list(stoi)
        batch = ["".join(rt.rng.choice(syms) for _j in range(rt.rng.randint(0, 6))) for _b in range(rt.rng.randint(0, 4))]
        pad = rt.rng.choice([-1, 0, 3, 6, 9])
        ctx.evaluations += 1
        try:
            flat = sf.batch_selfies_to_flat_hot(batch, stoi, pad)
            w = "ok\t" + ";".join(",".join(map(str, r_)) for r_ in flat)
        except Exception as e:  # noqa
            flat = None
            w = "err\t" + type(e).__name__
        lines.append("bs2f\t%s\t%d" % (vocab_wire(stoi), pad) + "".join("\t" + enc(s) for s in batch))
        expected.append(w)
        if flat is not None:
            per = []
            for s in batch:
                oh = sf.selfies_to_encoding(s, stoi, pad, enc_type="one_hot")
                per.append([e for v in oh for e in v])
            if per != flat:
                add_violation(ctx, "C15:batch-pointwise", "batch encoding differs from the per-string encoding", batch=batch)
            back = sf.batch_flat_hot_to_selfies(flat, itos)
            want = [s + "[nop]" * (max(sf.len_selfies(s), pad) - sf.len_selfies(s)) for s in batch]
            if back != want:
                add_violation(ctx, "C15:batch-inverse", "batch decoding is not the padded batch", batch=batch, back=back)
            if flat and all(flat):
                lines.append("bf2s\t%s\t%s" % (";".join(",".join(map(str, r_)) for r_ in flat), itos_wire(itos)))
                expected.append("ok\t" + " ".join(enc(x) for x in back))
        # ragged / non one-hot vectors raise
        M = len(itos)
        vec = [0] * (M * 2 + (1 if M > 1 else 0))
        try:
            sf.batch_flat_hot_to_selfies([vec], itos)
            add_violation(ctx, "C15:ragged", "ragged / all-zero vector did not raise", vector=vec, vocab=len(itos))
        except ValueError:
            pass
    rt.corr("batch", lines, expected)
    ctx.sample({"vocab": {"[nop]": 0, "[C]": 1}, "string": "[C][C]", "pad": 3})


REGISTRY = {
    "C01": check_C01, "C02": check_C02, "C07": check_C07, "C08": check_C08, "C13": check_C13,
    "C14": check_C14, "C15": check_C15, "C16": check_C16, "C18": check_C18,
}

from props2 import REGISTRY2, apply_known_findings  # noqa: E402

REGISTRY.update(REGISTRY2)
