"""Generators (DESIGN §6). Every random choice comes from the `random.Random` instance passed in,
which the caller seeds from VERIF_SEED; every generator is a plain function returning a list."""
import csv
import glob
import itertools
import os

REPO = os.environ.get("SELFIES_REPO", "/repo")

INDEX = ["[C]", "[Ring1]", "[Ring2]", "[Branch1]", "[=Branch1]", "[#Branch1]", "[Branch2]", "[=Branch2]",
         "[#Branch2]", "[O]", "[N]", "[=N]", "[=C]", "[#C]", "[S]", "[P]"]
MULTI = ["[C]", "[C]", "[C]", "[N]", "[=C]", "[#C]", "[=N]", "[O]", "[S]", "[P]", "[=S]", "[B]", "[=P]",
         "[N+1]", "[O+1]", "[C-1]", "[C+1]", "[S+1]", "[P+1]", "[B-1]", "[CH1]", "[C@@H1]", "[C@H1]",
         "[C@]", "[C@@]", "[13C]", "[NH1]", "[Si]", "[Fe+2]", "[/C]", "[\\C]", "[=N+1]", "[Se]", "[CH2]",
         "[NH2+1]", "[13CH1]", "[Sn]", "[#S]", "[=Si]", "[As]", "[/N]", "[\\C@@H1]"]
TERM = ["[F]", "[Cl]", "[Br]", "[I]", "[H]", "[=O]", "[#N]", "[O-1]", "[OH1]", "[NH3+1]", "[CH3]", "[2H]",
        "[Na+1]", "[=S]", "[/F]", "[\\Cl]", "[OH0]", "[CH4]"]
BRANCH = ["[Branch1]", "[=Branch1]", "[#Branch1]", "[Branch2]", "[=Branch2]", "[#Branch2]", "[Branch3]",
          "[=Branch3]", "[#Branch3]"]
RING_PLAIN = ["[Ring1]", "[=Ring1]", "[#Ring1]", "[Ring2]", "[=Ring2]", "[#Ring2]", "[Ring3]", "[=Ring3]",
              "[#Ring3]"]
RING_STEREO = ["[%s%sRing%d]" % (a, b, L) for L in (1, 2, 3) for a in "-/\\" for b in "-/\\" if a + b != "--"]
INVALID = ["[Branch4]", "[-Ring1]", "[--Ring1]", "[X]", "[c]", "[C+0]", "[CH10]", "[Cc]", "[]", "[C@@@]",
           "[=Ring4]", "[Branch1_1]", "[Expl=Ring1]", "[Cexpl]", "[C+01]", "[ch]", "[Dng1]", "[CH9]",
           "[123]", "[=]", "[C:1]", "[*]", "[==C]", "[C-]", "[eps]", "[Ceps]"]
OTHER = ["[epsilon]", "[nop]", "[epsilon_1]"]


def index_symbols(n, width):
    """the `width` index symbols (big endian) for value n (mod 16**width)"""
    out = []
    for k in range(width):
        out.append(INDEX[(n // (16 ** (width - 1 - k))) % 16])
    return out


# --------------------------------------------------------------------------- G-selfies

def gen_uniform(rng, alphabet, n, maxlen):
    out = []
    for _ in range(n):
        k = rng.randint(1, maxlen)
        out.append("".join(rng.choice(alphabet) for _ in range(k)))
    return out


def _chain(rng, budget, depth, stats):
    """a list of symbols forming a chain of roughly `budget` symbols with nested branches / rings"""
    syms = []
    natoms = 0
    while len(syms) < budget:
        r = rng.random()
        if r < 0.62 or natoms == 0:
            syms.append(rng.choice(MULTI))
            natoms += 1
        elif r < 0.80 and depth < 6:
            # branch: symbol, index symbols, body
            body_len = rng.choice([1, 1, 2, 3, 4, 6, 10, 17, 20])
            body = _chain(rng, body_len, depth + 1, stats)
            if rng.random() < 0.25:
                body.append(rng.choice(TERM))
            L = rng.choice([1, 1, 1, 2, 3])
            q = len(body) - 1
            roll = rng.random()
            if roll < 0.10:
                q = q + rng.randint(1, 5)        # overruns its body
            elif roll < 0.18:
                q = max(0, q - rng.randint(1, 3))  # shorter than its body
            elif roll < 0.20:
                q = rng.randint(0, 16 ** L - 1)
            sym = rng.choice(BRANCH[(L - 1) * 3:(L - 1) * 3 + 3])
            syms.append(sym)
            syms.extend(index_symbols(q, L))
            syms.extend(body)
            stats["branches"] = stats.get("branches", 0) + 1
            stats["maxdepth"] = max(stats.get("maxdepth", 0), depth + 1)
        elif r < 0.97:
            L = rng.choice([1, 1, 1, 2, 3])
            roll = rng.random()
            if roll < 0.70:
                q = rng.randint(0, 8)
            elif roll < 0.85:
                q = rng.randint(0, 40)
            elif roll < 0.95:
                q = 0                            # onto the bonded neighbour
            else:
                q = rng.randint(0, 16 ** L - 1)  # far out of range
            pool = RING_PLAIN[(L - 1) * 3:(L - 1) * 3 + 3] if rng.random() < 0.8 else \
                [s for s in RING_STEREO if s.endswith("%d]" % L)]
            syms.append(rng.choice(pool))
            syms.extend(index_symbols(q, L))
            stats["rings"] = stats.get("rings", 0) + 1
        else:
            syms.append(rng.choice(OTHER))
    return syms


def gen_stay_alive(rng, n, maxlen, stats=None):
    stats = stats if stats is not None else {}
    out = []
    for _ in range(n):
        frags = []
        for _f in range(rng.choice([1, 1, 1, 1, 2, 3])):
            budget = rng.randint(1, maxlen)
            syms = _chain(rng, budget, 0, stats)
            if rng.random() < 0.3:
                syms.append(rng.choice(TERM))
            # truncate in the middle of things sometimes
            if rng.random() < 0.1 and len(syms) > 2:
                syms = syms[:rng.randint(1, len(syms) - 1)]
            # sprinkle nops
            if rng.random() < 0.15:
                for _k in range(rng.randint(1, 4)):
                    syms.insert(rng.randint(0, len(syms)), "[nop]")
            frags.append("".join(syms))
        out.append(".".join(frags))
    return out


COVER28 = ["[C]", "[=C]", "[#C]", "[N]", "[O]", "[=O]", "[F]", "[S]", "[P]", "[H]", "[B-1]", "[CH1]",
           "[Branch1]", "[=Branch1]", "[#Branch1]", "[Branch2]", "[Ring1]", "[=Ring1]", "[#Ring1]",
           "[Ring2]", "[-/Ring1]", "[epsilon]", "[nop]", "[Cl]", "[=N]", "[#N]", "[I-1]", "[X]"]
COVER14 = ["[C]", "[=C]", "[#C]", "[N]", "[O]", "[F]", "[P]", "[Branch1]", "[=Branch1]", "[Ring1]",
           "[=Ring1]", "[Ring2]", "[epsilon]", "[nop]"]


def gen_exhaustive(alphabet, maxlen):
    for k in range(0, maxlen + 1):
        for t in itertools.product(alphabet, repeat=k):
            yield "".join(t)


def gen_many_rings(rng, n):
    """strings with > 99 ring bonds (dedicated stream for the ring-label clause of C01)"""
    out = []
    for _ in range(n):
        k = rng.randint(100, 130)
        out.append("[C]" + "[C][C][Ring1][Ring1][C]" * k)
    return out


def gen_malformed_selfies(rng, n, base):
    """character-level damage to well-formed strings, plus arbitrary text"""
    out = []
    junk = ["[", "]", ".", "x", "[[", "]]", "[C", "C]", "..", " ", "\n", "٣", "²", "[٣C]",
            "[C+²]", "", "[.]", "[C.N]"]
    for _ in range(n):
        s = rng.choice(base) if base and rng.random() < 0.8 else ""
        k = rng.randint(1, 3)
        for _j in range(k):
            pos = rng.randint(0, len(s))
            roll = rng.random()
            if roll < 0.4:
                s = s[:pos] + rng.choice(junk) + s[pos:]
            elif roll < 0.7 and s:
                s = s[:pos] + s[pos + 1:]
            elif roll < 0.9:
                s = s[:pos] + rng.choice(INVALID) + s[pos:]
            else:
                s = s[:pos] + chr(rng.choice([rng.randint(32, 126), rng.randint(160, 0x2FF), rng.randint(0x600, 0x6FF)])) + s[pos:]
        out.append(s)
    out.extend(["", ".", "..", "[", "]", "[]", "[C][", "[C]]", "[C]x[C]", "x[C]", "[C].", ".[C]", "[C]..[C]"])
    return out


# --------------------------------------------------------------------------- G-table

def relaxed_table(sf):
    t = sf.get_preset_constraints("hypervalent")
    t.update({"P": 7, "P-1": 8, "P+1": 6, "?": 12})
    return t


ELEMS_FOR_TABLES = ["C", "N", "O", "S", "P", "F", "Cl", "Br", "I", "B", "H", "Si", "Se", "Fe", "Sn", "Na", "As"]


def random_table(rng):
    t = {}
    for e in rng.sample(ELEMS_FOR_TABLES, rng.randint(1, len(ELEMS_FOR_TABLES))):
        t[e] = rng.choice([0, 1, 1, 2, 3, 4, 4, 5, 6, 7, 8, 9, 12])
        for ch in rng.sample([1, 2, 3, 10, 12], rng.randint(0, 2)):
            sign = rng.choice("+-")
            t["%s%s%d" % (e, sign, ch)] = rng.choice([0, 1, 2, 3, 4, 5, 6, 8, 12])
    t["?"] = rng.choice([0, 1, 2, 4, 8, 8, 12])
    items = list(t.items())
    rng.shuffle(items)
    return dict(items)


def tables(rng, sf, n_random):
    out = [("default", sf.get_preset_constraints("default")),
           ("octet_rule", sf.get_preset_constraints("octet_rule")),
           ("hypervalent", sf.get_preset_constraints("hypervalent")),
           ("relaxed", relaxed_table(sf)),
           ("cap0", {"C": 0, "N": 0, "O": 2, "F": 1, "?": 0}),
           ("cap12", {"C": 12, "N": 9, "O": 12, "F": 2, "?": 12})]
    for i in range(n_random):
        out.append(("random%d" % i, random_table(rng)))
    return out


BAD_DICTS = [
    {"C": 4}, {}, {"?": 8, "Xx": 1}, {"?": 8, "C+": 1}, {"?": 8, "C+01": 1}, {"?": 8, "C+0": 1},
    {"?": 8, "C++1": 1}, {"?": 8, "C": -1}, {"?": 8, "C": 1.0}, {"?": 8, "C": "4"}, {"?": 8, "C": None},
    {"?": -1}, {"?": 8, "c": 4}, {"?": 8, "C+1x": 2}, {"?": 8, "+1": 2}, {"?": 8, "C+²": 1},
    {"?": 8, "": 1}, {"?": 8, "C-+1": 1}, {"?": 8, 1: 1}, {"?": 8, None: 1}, {"?": 8, ("C",): 1},
    {"?": 8, "C": True}, {"?": False},
    {"?": 8, "N+1\n": 4}, {"?": 8, "C\n": 4}, {"?": 8, "C+1 ": 4}, {"?": 8, " C": 4}, {"?": 8, "C+1\n\n": 4}, {"?\n": 8, "?": 8},
    {"?": 8, "C+1\t": 4}, {"?": 8, "C-2\n": 1}, {"?": 8, "C+1\r": 4}, {"?": 8, "\nC": 4}, {"?": 8, "C+ 1": 4}, {"?": 8, "C+1_0": 4},
    {"?": 8, "Fe+2\n": 6}, {"?": 8, "C +1": 1},
]


def corrupt_key(rng, k):
    """a constraint key with one stray character somewhere (whitespace, line breaks, punctuation, a digit variant)"""
    junk = ["\n", " ", "\t", "\r", "_", ".", "0", "+", "-", "x", "\u00b2", "\u0663"]
    pos = rng.randint(0, len(k))
    return k[:pos] + rng.choice(junk) + k[pos:]


# --------------------------------------------------------------------------- G-smiles

_DATASET_CACHE = {}


def dataset_smiles(rng, n_per_file):
    out = []
    for f in sorted(glob.glob(os.path.join(REPO, "tests", "test_sets", "**", "*.csv"), recursive=True)):
        if f not in _DATASET_CACHE:
            col = []
            with open(f, newline="") as fh:
                rd = csv.reader(fh)
                try:
                    header = next(rd)
                except StopIteration:
                    _DATASET_CACHE[f] = []
                    continue
                idx = None
                for i, h in enumerate(header):
                    if h.strip().lower() in ("smiles", "mol"):
                        idx = i
                if idx is None:
                    idx = len(header) - 1 if "esol" in f else 0
                for row in rd:
                    if len(row) > idx and row[idx].strip():
                        col.append(row[idx].strip())
            _DATASET_CACHE[f] = col
        col = _DATASET_CACHE[f]
        if col:
            out.extend(rng.sample(col, min(n_per_file, len(col))))
    return out


STEREO_SEEDS = [
    "C[C@H](N)C(=O)O", "C[C@@H](N)C(=O)O", "F/C=C/F", "F/C=C\\F", "C1C[C@H]2CC[C@@H]1C2",
    "[C@]12(F)CCC[C@@H]1CCC2", "C[C@]1(O)CCC[C@@H](Cl)C1", "N[C@@]1(C)CC[C@H]1O",
    "C1[C@@H]2[C@H]3[C@@H]1[C@H]4[C@@H]2[C@@H]3C4", "O[C@H]1[C@H](O)[C@@H](O)[C@H](O)[C@@H](O)[C@@H]1O",
    "F/C=C/C=C\\C", "C/C=C1/CCCC1=O", "F/C=C1\\CC/1", "[C@H](F)(Cl)Br", "[C@@](F)(Cl)(Br)I",
    "C[S@](=O)CC", "C[C@H]1CC[C@@H](C)CC1", "C1CC[C@]2(C1)CCC[C@H]2O", "[C@@H]1(F)CC1",
    "C[C@@H]1CCCC[C@H]1/C=C/C", "F/C=C/1CCCC\\1", "C[N@+](CC)(CCC)CCCC",
    "C[C@H]1CC[C@H]2[C@H](C1)CC[C@@H]1[C@@H]2CC[C@]2(C)[C@@H](O)CC[C@H]12",
    "O=C1[C@@H]2CC[C@H]1C2", "Cl[C@]12C[C@@](F)(C1)C2", "[13C@H](C)(N)O", "C[C@@H]1O[C@H]1C",
]

AROMATIC_SEEDS = [
    "c1ccccc1", "c1ccc2ccccc2c1", "c1ccc2cc3ccccc3cc2c1", "c1cc2ccc3cccc4ccc(c1)c2c34", "c1ccoc1",
    "c1ccsc1", "c1cc[nH]c1", "c1ccncc1", "c1cnc2ccccc2c1", "c1ccc2[nH]ccc2c1", "Cn1cccc1", "c1cc[n+](C)cc1",
    "O=c1cc[nH]cc1", "c1cc2cccc2c1", "c1ccc2cccc2cc1", "c1ccc2c(c1)c1ccccc21", "[nH]1cccc1", "c1cscn1",
    "c1ncc[nH]1", "c1ccc(cc1)-c1ccccc1", "c1cc[se]c1", "[te]1cccc1", "c1ccpcc1", "c1cc[o+]cc1", "c1cc[cH-]c1",
    "c1ccccc1C", "Oc1ccccc1", "c1ccc2occc2c1", "O=c1cnc[nH]c1", "C1=CC=CC=C1", "c1ccccc1.c1ccncc1",
    "c1ccc2ncccc2c1", "c1c2ccccc2cc2ccccc12", "[cH]1[cH][cH][cH][cH][cH]1", "c1ccc2c(c1)ccc1ccccc12",
    "n1ccccc1", "c1ccc[n+]([O-])c1", "c1ccc(cc1)[N+](=O)[O-]", "[O-]c1ccccc1", "Cc1ccccc1", "c1ccbcc1",
    "c1cc[siH]cc1", "c1ccc2c(c1)[nH]c1ccccc12", "c1cc2ccc3ccc4ccc5ccc1c1c2c3c4c51", "c1ccc2c(c1)-c1cccc3cccc-2c13",
    "c1cc2cccc3c2c(c1)C=C3", "C1=Cc2cccc3cccc1c23", "c1ccc2c(c1)cc1ccc3cccc4ccc2c1c34",
    "c1ccc2cccc-2cc1", "c12c3c4c5c1c1c6c7c2c2c8c3c3c9c4c4c%10c5c5c1c1c6c6c%11c7c2c2c7c8c3c3c8c9c4c4c9c%10c5c5c1c1c6c6c%11c2c2c7c3c3c8c4c4c9c5c1c1c6c2c3c41", "c1ccc2c(c1)c1nc3nc(nc4[nH]c(nc5nc(nc2[nH]1)c1ccccc51)c1ccccc41)c1ccccc31",
    "CC(C)(c1ccccc1)c1ccc(Oc2ccc3c4nc5nc(nc6nc(nc7nc(nc(n4)c3c2)c2ccc(Oc3ccc(C(C)(C)c4ccccc4)cc3)cc72)c2ccc(Oc3ccc(C(C)(C)c4ccccc4)cc3)cc62)c2cc(Oc3ccc(C(C)(C)c4ccccc4)cc3)ccc52)cc1", "c1cc2ccc3ccc4ccc5ccc6ccc1c1c2c3c4c5c61",
    "c12c3c4c5c1c1c6c7c2c2c8c3c3c9c4c4c%10c5c5c1c1c6c6c%11c7c2c2c7c8c3c3c8c9c4c4c9c%10c5c5c1c1c6c6c%11c2c2c7c3c3c8c4c4c9c5c1c1c6c2c3c41",
]
NONKEKULE = ["c1cccc1", "c1cccc1C", "c1cc1", "c1cccccc1", "[cH]1[cH][cH][cH][cH]1", "c1ccccc1c", "n1cccc1",
             "c1ccc2cccc2c1C", "c1ccccc1:c"]

MALFORMED_SMILES = [
    "", "(", ")", "C(", "C)", "C()", "C(C", "C1", "C11", "C12C1", "C1CC2", "C=", "C#", "=C", "-C", "C==C", "C=#C",
    "C.", ".C", "C..C", "C(.C)", "C(C.C)C", "C%1", "C%", "C%ab", "C%12CC%12", "C%01CC1", "C0CC0", "C[", "C]", "[C",
    "[]", "[X]", "[c]", "[Cc]", "[C@@@H]", "[C@TH1]", "[CH10]", "[C+-]", "[C++2]", "[C:]", "[C:x]", "*", "C*", "C$C",
    "C->C", "C:C", "F:F", "[Zn]:[Zn]", "c:c", "C1:C:C:C:C:C1", "C/C", "C\\C", "C/=C", "C(/C", "C1=CC1", "C=1CC1",
    "C=1CC=1", "C=1CC#1", "C/1CC\\1", "C-1CC=1", "C1CC/1", "c1ccccc1:c", "C(=O)(=O)(=O)=O", "[Na+].[Cl-]",
    "C1CC1C1CC1", "C1(C)CC1", "C(C)(C)(C)(C)C", "[CH4]", "[NH4+]", "[Fe+2]", "[Fe++]", "[13CH3-]", "[2H]O[2H]",
    "C²CC²", "C%١٢CC%١٢", "[٣C]", "中", "C中C", " C", "C C", "C\n",
    "[C][C]", "Cl", "Br", "BrC", "ClCBr", "Clc1ccccc1", "B", "b1ccccc1", "[se]1cccc1", "[co]", "[cl]",
]


def rdkit_respell(rng, smi, n):
    """alternative spellings through RDKit: random atom order, rooted, kekulised, explicit bonds / Hs"""
    from rdkit import Chem
    from rdkit import RDLogger
    RDLogger.DisableLog("rdApp.*")
    m = Chem.MolFromSmiles(smi)
    if m is None:
        return []
    out = set()
    na = m.GetNumAtoms()
    for _ in range(n):
        kw = dict(doRandom=True, canonical=False)
        roll = rng.random()
        try:
            if roll < 0.5:
                s = Chem.MolToSmiles(m, **kw)
            elif roll < 0.65:
                s = Chem.MolToSmiles(m, rootedAtAtom=rng.randrange(na), canonical=False)
            elif roll < 0.8:
                s = Chem.MolToSmiles(m, kekuleSmiles=True, **kw) if not any(a.GetIsAromatic() for a in m.GetAtoms()) \
                    else Chem.MolToSmiles(m, **kw)
            elif roll < 0.9:
                s = Chem.MolToSmiles(m, allBondsExplicit=True, **kw)
            else:
                s = Chem.MolToSmiles(m, allHsExplicit=True, **kw)
        except Exception:
            continue
        if "->" in s or "<-" in s or "*" in s or "$" in s:
            continue      # dative / wildcard / quadruple bonds: outside the supported subset
        out.add(s)
    return sorted(out)


def relabel_rings(rng, smi):
    """respell ring-closure labels of a SMILES without brackets containing digits issues:
    map each label to a random unused label, possibly %nn or 0 (labels are strings for selfies)"""
    import re
    toks = re.findall(r"\[[^\]]*\]|%\d\d|\d|.", smi)
    labels = sorted({t for t in toks if re.fullmatch(r"%\d\d|\d", t)})
    if not labels:
        return smi
    pool = [str(d) for d in range(0, 10)] + ["%%%02d" % d for d in range(10, 60)]
    rng.shuffle(pool)
    mp = dict(zip(labels, pool))
    return "".join(mp.get(t, t) for t in toks)


def digits_after_branches(rng, smi):
    """respell: move the ring-closure labels of an atom BEHIND (some of) its branches, e.g. `[C@]1(F)(Cl)CC1`
    -> `[C@](F)(Cl)1CC1` / `[C@](F)1(Cl)CC1`. Legal SMILES that no standard writer produces; it changes the
    written neighbour order (so it may denote the other enantiomer, which is fine for a test input)."""
    import re
    toks = re.findall(r"\[[^\]]*\]|Br|Cl|%\d\d|\d|.", smi)
    out = []
    i = 0
    changed = False
    while i < len(toks):
        t = toks[i]
        out.append(t)
        i += 1
        is_atom = t.startswith("[") or t in ("Br", "Cl") or (len(t) == 1 and t.isalpha())
        if not is_atom:
            continue
        # labels (with optional bond symbol in front) directly after the atom
        labels = []
        j = i
        while j < len(toks):
            if re.fullmatch(r"%\d\d|\d", toks[j]):
                labels.append([toks[j]])
                j += 1
            elif toks[j] in "=#/\\-:" and j + 1 < len(toks) and re.fullmatch(r"%\d\d|\d", toks[j + 1]):
                labels.append([toks[j], toks[j + 1]])
                j += 2
            else:
                break
        # balanced groups after the labels
        groups = []
        k = j
        while k < len(toks) and toks[k] == "(":
            depth = 0
            m = k
            while m < len(toks):
                if toks[m] == "(":
                    depth += 1
                elif toks[m] == ")":
                    depth -= 1
                    if depth == 0:
                        break
                m += 1
            if m >= len(toks):
                break
            groups.append(toks[k:m + 1])
            k = m + 1
        # a terminal atom that continues the chain can be written as one more branch: X1(F)Cl -> X(F)(Cl)1
        if labels and k < len(toks) and rng.random() < 0.6:
            m = k
            pre = []
            if toks[m] in "=#/\\-" and m + 1 < len(toks):
                pre = [toks[m]]
                m += 1
            if m < len(toks) and (toks[m].startswith("[") or toks[m] in ("Br", "Cl", "F", "I", "C", "N", "O", "S", "P", "B")) \
                    and (m + 1 == len(toks) or toks[m + 1] == ")"):
                groups.append(["("] + pre + [toks[m]] + [")"])
                k = m + 1
        if labels and groups and rng.random() < 0.8:
            # interleave: choose for every label how many groups precede it
            cuts = sorted(rng.randint(0, len(groups)) for _ in labels)
            if any(cuts):
                seq = []
                gi = 0
                for lab, c in zip(labels, cuts):
                    while gi < c:
                        seq.extend(groups[gi])
                        gi += 1
                    seq.extend(lab)
                while gi < len(groups):
                    seq.extend(groups[gi])
                    gi += 1
                out.extend(seq)
                i = k
                changed = True
    return "".join(out) if changed else None


def explicit_ring_closure_bond(rng, smi):
    """respell: write an explicit '-' (or, on non-aromatic closures, the bond symbol) on exactly ONE of the two
    digits of a ring closure, e.g. c1ccc2ccccc2c1 -> c1ccc-2ccccc2c1 (an explicit single bond inside an aromatic
    system: it must stay single)"""
    import re
    toks = re.findall(r"\[[^\]]*\]|Br|Cl|%\d\d|\d|.", smi)
    idx = [i for i, t in enumerate(toks) if re.fullmatch(r"%\d\d|\d", t) and i > 0 and toks[i - 1] not in "=#/\\-:"]
    if not idx:
        return None
    i = rng.choice(idx)
    return "".join(toks[:i] + ["-"] + toks[i:])


def explicit_h_spelling(rng, smi):
    """respell: bracket atoms that carry no hydrogen get an explicit `H0` ([N+] -> [NH0+], [C@] -> [C@H0]); a bare `H`
    becomes `H1`; an organic-subset atom with no room for an implicit H is left alone (its H count depends on the
    valence model). All are documented spellings of the SAME atom."""
    import re

    def fix(m):
        iso, el, chir, h, rest = m.group(1), m.group(2), m.group(3), m.group(4), m.group(5)
        if h == "":
            h = "H0"
        elif h == "H" and rng.random() < 0.7:
            h = "H1"
        return "[%s%s%s%s%s]" % (iso, el, chir, h, rest)
    out = re.sub(r"\[(\d*)([A-Z][a-z]?|[a-z][a-z]?)(@{0,2})(H\d*)?([^\]]*)\]",
                 lambda m: fix(type("M", (), {"group": lambda self, i, m=m: m.group(i) or ""})()), smi)
    return out if out != smi else None


def capacity_pairs(rng):
    """molecules that contain a legal atom and, elsewhere, a sibling of the same element / charge / bond count
    that differs only in explicit H (or in nothing) - in both orders, as one chain and as two fragments"""
    out = []
    subs = ["C", "F", "Cl", "O"]
    for el, kmax in (("N", 4), ("O", 3), ("C", 5), ("S", 6), ("P", 5), ("B", 4), ("Si", 5), ("Cl", 2), ("I", 3), ("Se", 3)):
        for k in range(1, kmax + 1):
            arms = ["(%s)" % rng.choice(subs) for _ in range(k)]
            plain = (el if len(el) == 1 or el in ("Cl", "Br") else "[%s]" % el) + "".join(arms[:-1]) + arms[-1][1:-1]
            if el in ("Si", "Se"):
                plain = "[%s]" % el + "".join(arms[:-1]) + arms[-1][1:-1]
            for h in (1, 2, 3):
                for chg in ("", "+", "-"):
                    br = "[%sH%d%s]" % (el, h, chg) + "".join(arms[:-1]) + arms[-1][1:-1]
                    pl = plain if not chg else "[%s%s]" % (el, chg) + "".join(arms[:-1]) + arms[-1][1:-1]
                    out += [pl + "." + br, br + "." + pl, "C" + pl[len(el) if not pl.startswith("[") else 0:] if False else pl + "CC" + br,
                            br + "CC" + pl]
    rng.shuffle(out)
    return out


def random_tree_smiles(rng, natoms, table_atoms=None):
    """own writer: a random tree with ring closures, spelled with random choices"""
    atoms = table_atoms or ["C", "C", "C", "N", "O", "S", "P", "[CH]", "[C@H]", "[C@@H]", "[N+]", "[O-]", "[13C]",
                            "[Si]", "[CH2]", "[C@]", "[C@@]", "[NH]", "[B-]", "F", "Cl", "Br", "[Fe+2]", "[2H]"]
    bonds = ["", "", "", "", "-", "=", "#", "/", "\\"]
    parts = []
    open_rings = []
    used = 0
    nxt = [1]

    def emit_atom():
        return rng.choice(atoms)

    def chain(depth, budget):
        s = emit_atom()
        n = 1
        while n < budget:
            r = rng.random()
            if r < 0.15 and depth < 4 and budget - n > 1:
                k = rng.randint(1, min(4, budget - n))
                s += "(" + rng.choice(bonds) + chain(depth + 1, k) + ")"
                n += k
            elif r < 0.30 and len(open_rings) < 6:
                lab = nxt[0]
                nxt[0] += 1
                open_rings.append(lab)
                s += rng.choice(["", "", "=", "/"]) + (str(lab) if lab < 10 else "%%%d" % lab)
            elif r < 0.45 and open_rings:
                lab = open_rings.pop(rng.randrange(len(open_rings)))
                s += (str(lab) if lab < 10 else "%%%d" % lab)
            else:
                s += rng.choice(bonds) + emit_atom()
                n += 1
        return s

    s = chain(0, natoms)
    # close what is open on fresh atoms
    for lab in open_rings:
        s += "C" + (str(lab) if lab < 10 else "%%%d" % lab)
    return s


def long_span_smiles(rng):
    """ring spans / branch lengths needing 2 and 3 index symbols"""
    out = []
    for n in [14, 15, 16, 17, 30, 255, 256, 257, 300]:
        out.append("C1" + "C" * n + "1")
        out.append("C(" + "C" * n + ")C")
        out.append("C(" + "C" * (n // 2) + "(C)" + "C" * (n // 2) + ")N")
    out.append("C1" + "C" * 4094 + "1")
    out.append("C1" + "C" * 4095 + "1")
    out.append("C1" + "C" * 4096 + "1")   # beyond three index symbols
    out.append("C(" + "C" * 4096 + ")C")
    out.append("C(" + "C" * 4097 + ")C")
    return out


def ring_bond_span_smiles():
    """every kind of ring-closure bond symbol (=, #, and / \\ marks on the opening digit, the closing digit or both)
    on ring spans that need one, two and three index symbols: the product ring-symbol kind x L = 1, 2, 3"""
    out = []
    for n in (3, 20, 300):
        mid = "C" * n
        out += ["C=1" + mid + "C1", "C1" + mid + "C=1", "C#1" + mid + "C1",
                "C/1=C/" + mid + "C\\1", "C/1=C/" + mid + "C1", "C1=C/" + mid + "C\\1",
                "C\\1=C\\" + mid + "C/1", "C/1=C/" + mid + "C/1", "C\\1=C/" + mid + "C1",
                "F/C=C/1" + mid + "C\\1", "F/C=C\\1" + mid + "C/1",
                "C\\1=C\\" + mid + "C\\1", "C1=C\\" + mid + "C/1"]
    return out


# --------------------------------------------------------------------------- G-encoding

def random_vocab(rng, with_dot=None, with_nop=True):
    syms = rng.sample(MULTI + TERM + BRANCH + RING_PLAIN, rng.randint(1, 12))
    syms = list(dict.fromkeys(syms))
    if with_nop:
        syms.append("[nop]")
    if with_dot if with_dot is not None else rng.random() < 0.5:
        syms.append(".")
    rng.shuffle(syms)
    # a bijection symbols <-> 0..n-1 whose dict insertion order is NOT the index order (two runs in three):
    # a dict is a mapping, not a sequence - nothing may depend on the order in which the vocabulary was built
    idx = list(range(len(syms)))
    if rng.random() < 0.67:
        rng.shuffle(idx)
    return {s: idx[k] for k, s in enumerate(syms)}
