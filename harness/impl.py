"""Run the REAL selfies code (from /repo's working tree) and render results in the wire form the
Lean driver prints, so that the two can be compared line by line."""
import os
import sys
import warnings

REPO = os.environ.get("SELFIES_REPO", "/repo")
if REPO not in sys.path:
    sys.path.insert(0, REPO)

import selfies as sf  # noqa: E402
from selfies.utils import matching_utils as _mu  # noqa: E402

from modelio import enc, enc_dict  # noqa: E402

assert os.path.realpath(os.path.dirname(os.path.dirname(sf.__file__))) == os.path.realpath(REPO), sf.__file__

TAPE = []
LAST_FRAME = None


def note_frame(e):
    """name of the innermost frame inside the selfies package that the exception passed through"""
    global LAST_FRAME
    LAST_FRAME = None
    tb = e.__traceback__
    pkg = os.path.join(os.path.realpath(REPO), "selfies")
    counts = {}
    while tb is not None:
        fn = os.path.realpath(tb.tb_frame.f_code.co_filename)
        if fn.startswith(pkg):
            LAST_FRAME = tb.tb_frame.f_code.co_name
            counts[LAST_FRAME] = counts.get(LAST_FRAME, 0) + 1
        tb = tb.tb_next
    if isinstance(e, RecursionError) and counts:
        # root cause of a stack overflow: the function that fills the stack
        LAST_FRAME = max(counts, key=counts.get)


class RecordingSet(set):
    """records what `unmatched.pop()` returns in find_perfect_matching (the code's only
    nondeterministic choice); injected into selfies.utils.matching_utils from outside"""

    def pop(self):
        v = set.pop(self)
        TAPE.append(v)
        return v


_mu.set = RecordingSet


def exc_name(e):
    return type(e).__name__


def opt(x):
    return "N" if x is None else str(x)


def enc_attr(a):
    if a is None:
        return "N"
    return "[" + ";".join("%d:%s" % (x.index, enc(x.token)) for x in a) + "]"


def enc_maps(ms):
    return "|".join("%d~%s~%s" % (m.index, enc(m.token), enc_attr(m.attribution)) for m in ms)


def real_decoder(s, compat=False, attribute=False):
    try:
        with warnings.catch_warnings():
            warnings.simplefilter("ignore")
            r = sf.decoder(s, compatible=compat, attribute=attribute)
        if attribute:
            return "ok\t" + enc(r[0]) + "\t" + enc_maps(r[1])
        return "ok\t" + enc(r)
    except RecursionError as e:
        note_frame(e)
        return "err\tRecursionError"
    except Exception as e:  # noqa
        note_frame(e)
        return "err\t" + exc_name(e)


def real_decode_graph(s, compat=False):
    """the MolecularGraph the real decoder builds for `s`: captured from inside a real `selfies.decoder(s)` call by
    spying on the module-level name `mol_to_smiles` the decoder hands its graph to (no change to the library); if the
    decoder no longer does that (refactored), its own functions are called the way `decoder()` calls them; None if
    neither works or the string is rejected"""
    import importlib
    import warnings
    try:
        D = importlib.import_module("selfies.decoder")      # (`selfies.decoder` the attribute is the function)
    except Exception:
        return None
    orig = getattr(D, "mol_to_smiles", None)
    captured = []
    if orig is not None:
        def spy(mol, *a, **k):
            captured.append(mol)
            return orig(mol, *a, **k)
        D.mol_to_smiles = spy
        try:
            with warnings.catch_warnings():
                warnings.simplefilter("ignore")
                D.decoder(s, compatible=compat)
        except Exception:
            pass
        finally:
            D.mol_to_smiles = orig
        if captured:
            return captured[0]
        # rejected before the writer was reached, or the writer is called some other way: fall through
    try:
        MolecularGraph = importlib.import_module("selfies.mol_graph").MolecularGraph
        mol = MolecularGraph(attributable=False)
        rings = []
        for frag in s.split("."):
            D._derive_mol_from_symbols(
                symbol_iter=enumerate(D._tokenize_selfies(frag, compat)), mol=mol, selfies=s,
                max_derive=float("inf"), init_state=0, root_atom=None, rings=rings,
                attribute_stack=None, attribution_index=0)
        D._form_rings_bilocally(mol, rings)
        return mol
    except Exception:
        return None


def _lean_list(xs):
    return "[" + ", ".join(str(x) for x in xs) + "]"


def _lean_bool(b):
    return "true" if b else "false"


def enc_atom(a):
    return "%s|%s|%s|%s|%s|%d" % (enc(a.element), _lean_bool(a.is_aromatic), opt(a.isotope),
                                  "N" if a.chirality is None else enc(a.chirality), opt(a.h_count), a.charge)


def dump_decoder_graph(mol):
    """the decoder's MolecularGraph in the format of the driver's `decg` reply (integer orders)"""
    atoms = ";".join(enc_atom(a) for a in mol.get_atoms())
    adj = ";".join(",".join("%d>%d:%d:%s:%d" % (b.src, b.dst, b.order, "N" if b.stereo is None else enc(b.stereo),
                                               1 if b.ring_bond else 0) for b in out) for out in mol._adj_list)
    return "ok\tatoms=%s\troots=%s\tadj=%s\tcounts=%s" % (atoms, _lean_list(mol.get_roots()), adj, _lean_list(mol._bond_counts))


def dump_parsed_graph(mol):
    """the SMILES parser's MolecularGraph in the format of the driver's `parse` / `kek` reply (half-unit orders)"""
    def o2(x):
        return int(round(2 * x))
    atoms = ";".join(enc_atom(a) for a in mol.get_atoms())
    adj = ";".join(",".join("P" if b is None else "%d>%d:%d:%s:%d" % (b.src, b.dst, o2(b.order), "N" if b.stereo is None else enc(b.stereo),
                                                                      1 if b.ring_bond else 0) for b in out) for out in mol._adj_list)
    ds = ";".join("%d:%s" % (k, _lean_list(v)) for k, v in mol._delocal_subgraph.items())
    return "ok\tatoms=%s\troots=%s\tadj=%s\tcounts2=%s\tflags=%s\tds=%s" % (
        atoms, _lean_list(mol.get_roots()), adj, _lean_list(o2(c) for c in mol._bond_counts),
        _lean_list(_lean_bool(f) for f in mol._ring_bond_flags), ds)


def real_parse(smiles, kekulize=False):
    """(wire dump of the graph smiles_to_mol builds [after kekulize()], tape) or an error line"""
    import importlib
    SU = importlib.import_module("selfies.utils.smiles_utils")
    del TAPE[:]
    try:
        mol = SU.smiles_to_mol(smiles, attributable=False)
        if kekulize:
            if not mol.kekulize():
                return "ok\tN", list(TAPE)
        return dump_parsed_graph(mol), list(TAPE)
    except Exception as e:  # noqa
        return "err\t" + exc_name(e), list(TAPE)


def ring_bond_count(mol):
    return sum(1 for (a, b), bond in mol._bond_dict.items() if bond.ring_bond and a < b)


def real_encoder(s, strict=True, attribute=False):
    """returns (wire result, tape)"""
    del TAPE[:]
    try:
        r = sf.encoder(s, strict=strict, attribute=attribute)
        if attribute:
            out = "ok\t" + enc(r[0]) + "\t" + enc_maps(r[1])
        else:
            out = "ok\t" + enc(r)
    except RecursionError as e:
        note_frame(e)
        out = "err\tRecursionError"
    except Exception as e:  # noqa
        note_frame(e)
        out = "err\t" + exc_name(e)
    return out, list(TAPE)


def tape_str(t):
    return ",".join(map(str, t)) if t else "-"


def set_table(d):
    sf.set_semantic_constraints(d)


def current_table():
    return sf.get_semantic_constraints()
