"""Run the REAL selfies code (from /repo's working tree) and render results in the wire form the
Lean driver prints, so that the two can be compared line by line."""
import os
import sys
import warnings

REPO = os.environ.get("SELFIES_REPO", "/repo")
if REPO not in sys.path:
    sys.path.insert(0, REPO)

import selfies as sf  # noqa: E402
from selfies.utils import matching_utils as _mu  # noqa: E402

from modelio import enc, enc_dict  # noqa: E402

assert os.path.realpath(os.path.dirname(os.path.dirname(sf.__file__))) == os.path.realpath(REPO), sf.__file__

TAPE = []
LAST_FRAME = None


def note_frame(e):
    """name of the innermost frame inside the selfies package that the exception passed through"""
    global LAST_FRAME
    LAST_FRAME = None
    tb = e.__traceback__
    pkg = os.path.join(os.path.realpath(REPO), "selfies")
    counts = {}
    while tb is not None:
        fn = os.path.realpath(tb.tb_frame.f_code.co_filename)
        if fn.startswith(pkg):
            LAST_FRAME = tb.tb_frame.f_code.co_name
            counts[LAST_FRAME] = counts.get(LAST_FRAME, 0) + 1
        tb = tb.tb_next
    if isinstance(e, RecursionError) and counts:
        # root cause of a stack overflow: the function that fills the stack
        LAST_FRAME = max(counts, key=counts.get)


class RecordingSet(set):
    """records what `unmatched.pop()` returns in find_perfect_matching (the code's only
    nondeterministic choice); injected into selfies.utils.matching_utils from outside"""

    def pop(self):
        v = set.pop(self)
        TAPE.append(v)
        return v


_mu.set = RecordingSet


def exc_name(e):
    return type(e).__name__


def opt(x):
    return "N" if x is None else str(x)


def enc_attr(a):
    if a is None:
        return "N"
    return "[" + ";".join("%d:%s" % (x.index, enc(x.token)) for x in a) + "]"


def enc_maps(ms):
    return "|".join("%d~%s~%s" % (m.index, enc(m.token), enc_attr(m.attribution)) for m in ms)


def real_decoder(s, compat=False, attribute=False):
    try:
        with warnings.catch_warnings():
            warnings.simplefilter("ignore")
            r = sf.decoder(s, compatible=compat, attribute=attribute)
        if attribute:
            return "ok\t" + enc(r[0]) + "\t" + enc_maps(r[1])
        return "ok\t" + enc(r)
    except RecursionError as e:
        note_frame(e)
        return "err\tRecursionError"
    except Exception as e:  # noqa
        note_frame(e)
        return "err\t" + exc_name(e)


def real_decode_graph(s, compat=False):
    """the MolecularGraph the real decoder builds for `s` (its own functions, called as `decoder()` calls them);
    None if the internals are not callable this way (refactored) or the string is rejected"""
    try:
        import importlib
        D = importlib.import_module("selfies.decoder")      # (`selfies.decoder` the attribute is the function)
        MolecularGraph = importlib.import_module("selfies.mol_graph").MolecularGraph
        mol = MolecularGraph(attributable=False)
        rings = []
        for frag in s.split("."):
            D._derive_mol_from_symbols(
                symbol_iter=enumerate(D._tokenize_selfies(frag, compat)), mol=mol, selfies=s,
                max_derive=float("inf"), init_state=0, root_atom=None, rings=rings,
                attribute_stack=None, attribution_index=0)
        D._form_rings_bilocally(mol, rings)
        return mol
    except Exception:
        return None


def ring_bond_count(mol):
    return sum(1 for (a, b), bond in mol._bond_dict.items() if bond.ring_bond and a < b)


def real_encoder(s, strict=True, attribute=False):
    """returns (wire result, tape)"""
    del TAPE[:]
    try:
        r = sf.encoder(s, strict=strict, attribute=attribute)
        if attribute:
            out = "ok\t" + enc(r[0]) + "\t" + enc_maps(r[1])
        else:
            out = "ok\t" + enc(r)
    except RecursionError as e:
        note_frame(e)
        out = "err\tRecursionError"
    except Exception as e:  # noqa
        note_frame(e)
        out = "err\t" + exc_name(e)
    return out, list(TAPE)


def tape_str(t):
    return ",".join(map(str, t)) if t else "-"


def set_table(d):
    sf.set_semantic_constraints(d)


def current_table():
    return sf.get_semantic_constraints()
